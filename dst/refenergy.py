"""Independent reference energies, written from the model definitions in the class docstrings (not from the code), and
the oracles built on them (DESIGN.md section 4, C02 / C03 / C04)."""
import inspect
import math


def alias_section(obj):
    from jellyfysh.base.factory import get_alias
    return get_alias(obj.__class__.__name__)


def base_names(obj):
    return [c.__name__ for c in type(obj).__mro__]


def parameters_of(obj, sections):
    """Constructor parameters of a configured object: options of its .ini section, else the constructor defaults."""
    options = sections.get(alias_section(obj), {})
    result = {}
    for cls in type(obj).__mro__:
        init = cls.__dict__.get("__init__")
        if init is None:
            continue
        try:
            signature = inspect.signature(init)
        except (TypeError, ValueError):
            continue
        for name, parameter in signature.parameters.items():
            if name in ("self", "kwargs", "args") or name in result:
                continue
            if name in options:
                try:
                    result[name] = float(options[name])
                except ValueError:
                    result[name] = options[name]
            elif parameter.default is not inspect.Parameter.empty:
                result[name] = parameter.default
        break
    return result


# ---------------------------------------------------------------------------------------------------------------------
# radial pair energies
# ---------------------------------------------------------------------------------------------------------------------

class Radial(object):
    """U(r, c) for a pair potential depending on |r| only; ``stationary`` lists radii with dU/dr = 0."""
    periodic_in_motion = False

    def energy(self, r, c):
        raise NotImplementedError

    def at_infinity(self, c):
        raise NotImplementedError

    def stationary(self, c):
        return []


class InversePower(Radial):
    def __init__(self, k, p):
        self.k, self.p = k, p

    def energy(self, r, c):
        return c * self.k / r ** self.p if r > 0.0 else math.copysign(math.inf, c * self.k)

    def at_infinity(self, c):
        return 0.0


class LennardJones(Radial):
    def __init__(self, k, s):
        self.k, self.s = k, s

    def energy(self, r, c):
        if r <= 0.0:
            return math.inf
        x = (self.s / r) ** 6
        return self.k * (x * x - x)

    def at_infinity(self, c):
        return 0.0

    def stationary(self, c):
        return [self.s * 2.0 ** (1.0 / 6.0)]


class DisplacedEvenPower(Radial):
    def __init__(self, k, r0, p):
        self.k, self.r0, self.p = k, r0, p

    def energy(self, r, c):
        return self.k * (r - self.r0) ** self.p

    def at_infinity(self, c):
        return math.inf

    def stationary(self, c):
        return [self.r0]


class NearestImageCoulomb(InversePower):
    """c k / |nearest image of r|, periodic (in the direction of motion) with the box length."""
    periodic_in_motion = True

    def __init__(self, k, length):
        super().__init__(k, 1.0)
        self.length = length


def reference_for(potential, sections, setting):
    names = base_names(potential)
    p = parameters_of(potential, sections)
    if "InversePowerCoulombBoundingPotential" in names:
        import jellyfysh.setting.hypercubic_setting as hs
        return NearestImageCoulomb(p["prefactor"], hs.system_length)
    if "InversePowerPotential" in names:
        return InversePower(p["prefactor"], p["power"])
    if "LennardJonesPotential" in names:
        return LennardJones(p["prefactor"], p["characteristic_length"])
    if "DisplacedEvenPowerPotential" in names:
        return DisplacedEvenPower(p["prefactor"], p["equilibrium_separation"], int(p["power"]))
    return None


def uphill_energy(ref, c, sx, rho2, distance):
    """Accumulated uphill energy of U along the straight path x(s) = sx - s, s in [0, distance]; ``rho2`` is the squared
    distance perpendicular to the direction of motion.  Returns (energy, largest |U| met)."""
    def U(x):
        return ref.energy(math.sqrt(x * x + rho2), c)

    if ref.periodic_in_motion:
        length = ref.length
        half = length / 2.0
        lap = abs(U(0.0) - U(half))
        if math.isinf(distance):
            return (math.inf if lap > 0.0 else 0.0), abs(U(0.0))
        laps = math.floor(distance / length)
        rest = distance - laps * length
        total = laps * lap
        # walk the remaining part segment by segment; breakpoints where x = 0 or |x| = L/2
        x = sx
        remaining = rest
        scale = max(abs(U(0.0)), abs(U(half)))
        guard = 0
        while remaining > 0.0 and guard < 6:
            guard += 1
            if x > 0.0:
                step = min(remaining, x)
                target = x - step
            else:
                step = min(remaining, x + half)
                target = x - step
            gain = U(target) - U(x)
            if gain > 0.0:
                total += gain
            remaining -= step
            x = target
            if x <= -half:
                x = half
        return total, scale

    breakpoints = set()
    if sx > 0.0:
        breakpoints.add(sx)
    for radius in ref.stationary(c):
        if radius * radius > rho2:
            xs = math.sqrt(radius * radius - rho2)
            for x in (xs, -xs):
                s = sx - x
                if s > 0.0:
                    breakpoints.add(s)
    points = sorted(b for b in breakpoints if b < distance)
    total = 0.0
    scale = 0.0
    previous = 0.0
    u_previous = U(sx)
    scale = abs(u_previous) if not math.isinf(u_previous) else 0.0
    for s in points + [distance]:
        if math.isinf(s):
            u = ref.at_infinity(c)
        else:
            u = U(sx - s)
        if not math.isinf(u):
            scale = max(scale, abs(u))
        gain = u - u_previous
        if gain > 0.0:
            total += gain
        previous, u_previous = s, u
    return total, scale


def check_displacement(ref, c, velocity, separation, budget, result, direction, speed):
    """Forward identity: uphill energy accumulated over the returned distance equals the budget; infinite exactly when
    the whole remaining path accumulates less.  Returns None or (oracle name, detail)."""
    if isinstance(result, float) and math.isnan(result):
        return "displacement_is_nan", {}
    sx = separation[direction]
    rho2 = sum(x * x for i, x in enumerate(separation) if i != direction)
    if result < -1e-12:
        return "displacement_negative", {"returned": result}
    if math.isinf(result):
        total, scale = uphill_energy(ref, c, sx, rho2, math.inf)
        if total > budget * (1.0 + 1e-7) + 1e-9 * scale:
            return "displacement_infinite_although_path_accumulates_budget", {"total_uphill": total, "budget": budget}
        return None
    distance = result * speed
    energy, scale = uphill_energy(ref, c, sx, rho2, distance)
    # the Lennard-Jones inversion goes through 1 + U/k: far out in the tail (|U| << k) double precision resolves the
    # energy only to about 1e-16 k, whatever the budget
    unit = abs(getattr(ref, "k", 0.0)) if type(ref).__name__ == "LennardJones" else 0.0
    if math.isinf(energy) or abs(energy - budget) > 1e-6 * budget + 1e-9 * max(scale, 1e-300) + 1e-13 * unit:
        return "accumulated_uphill_energy_differs_from_budget", {"accumulated": energy, "budget": budget,
                                                                  "distance": distance, "scale": scale}
    return None


# ---------------------------------------------------------------------------------------------------------------------
# hard cores
# ---------------------------------------------------------------------------------------------------------------------

def first_contact_time(velocity, separation, radius2, outer=False):
    """Smallest t >= 0 with |separation - velocity t|**2 = radius2 (larger root when ``outer``)."""
    a = sum(v * v for v in velocity)
    b = sum(v * s for v, s in zip(velocity, separation))
    c = sum(s * s for s in separation) - radius2
    disc = b * b - a * c
    if disc < 0.0:
        return math.inf
    root = math.sqrt(disc)
    t = (b + root) / a if outer else (b - root) / a
    return t


def check_hard_sphere(p, velocity, separation, result):
    diameter2 = 4.0 * p["radius"] ** 2
    b = sum(v * s for v, s in zip(velocity, separation))
    expected = first_contact_time(velocity, separation, diameter2) if b >= 0.0 else math.inf
    if math.isinf(expected) != math.isinf(result):
        return "hard_sphere_contact_finite_infinite_mismatch", {"returned": result, "expected": expected}
    if math.isinf(expected):
        return None
    if result < -1e-12 or abs(result - expected) > 1e-9 * max(1.0, abs(expected)):
        return "hard_sphere_time_is_not_first_contact", {"returned": result, "expected": expected}
    at = [s - v * result for s, v in zip(separation, velocity)]
    d2 = sum(x * x for x in at)
    if abs(d2 - diameter2) > 1e-9 * diameter2:
        return "hard_sphere_not_in_contact_at_returned_time", {"distance2": d2, "diameter2": diameter2}
    return None


def check_hard_dipole(p, velocity, separation, result):
    inner2 = p["minimum_separation"] ** 2
    outer2 = p["maximum_separation"] ** 2
    b = sum(v * s for v, s in zip(velocity, separation))
    expected = math.inf
    if b >= 0.0:
        expected = first_contact_time(velocity, separation, inner2)
    if math.isinf(expected):
        expected = first_contact_time(velocity, separation, outer2, outer=True)
    if math.isinf(result) or result < -1e-12:
        return "hard_dipole_time_invalid", {"returned": result, "expected": expected}
    if abs(result - expected) > 1e-9 * max(1.0, abs(expected)):
        return "hard_dipole_time_is_not_first_contact", {"returned": result, "expected": expected}
    return None


# ---------------------------------------------------------------------------------------------------------------------
# derivatives
# ---------------------------------------------------------------------------------------------------------------------

def pair_energy_vector(ref, c, separation):
    if ref.periodic_in_motion:
        length = ref.length
        separation = [(x + length / 2.0) % length - length / 2.0 for x in separation]
    return ref.energy(math.sqrt(sum(x * x for x in separation)), c)


def finite_difference_pair(ref, c, velocity, separation):
    """d/dt U(separation - velocity t) at t = 0 by a central difference."""
    r = math.sqrt(sum(x * x for x in separation))
    speed = math.sqrt(sum(v * v for v in velocity))
    h = 1e-5 * r / speed
    if ref.periodic_in_motion:
        # the nearest-image energy has a kink on the box faces: stay on one side of it
        half = ref.length / 2.0
        for s, v in zip(separation, velocity):
            if v != 0.0:
                wrapped = (s + half) % ref.length - half
                room = min(half - wrapped, wrapped + half) / abs(v)
                if room < 4.0 * h:
                    h = room / 4.0
        if h < 1e-9 * r / speed:
            return None
    def central(step):
        plus = pair_energy_vector(ref, c, [s - v * step for s, v in zip(separation, velocity)])
        minus = pair_energy_vector(ref, c, [s + v * step for s, v in zip(separation, velocity)])
        return (plus - minus) / (2.0 * step), max(abs(plus), abs(minus))

    coarse, magnitude = central(h)
    fine, _ = central(h / 2.0)
    # Richardson extrapolation; the difference of the two estimates bounds the truncation error, the second term the
    # cancellation error of the energy difference
    value = fine + (fine - coarse) / 3.0
    error = abs(fine - coarse) + 8e-16 * magnitude / h
    return value, error


def bending_energy(k, phi0, s1, s2):
    n1 = math.sqrt(sum(x * x for x in s1))
    n2 = math.sqrt(sum(x * x for x in s2))
    cosine = sum(a * b for a, b in zip(s1, s2)) / n1 / n2
    return 0.5 * k * (math.acos(max(-1.0, min(1.0, cosine))) - phi0) ** 2


class Ewald(object):
    """Brute-force Ewald energy of two unit charges in a cubic box with tin-foil boundary conditions, with its own
    splitting parameter and generous cut-offs (independent of the parameters of the code under test)."""

    def __init__(self, length, alpha_times_length=2.8, images=4, kmax=9):
        self.length = length
        self.alpha = alpha_times_length / length
        self.images = range(-images, images + 1)
        self.kvectors = []
        two_pi_over_l = 2.0 * math.pi / length
        for kx in range(-kmax, kmax + 1):
            for ky in range(-kmax, kmax + 1):
                for kz in range(0, kmax + 1):
                    if kz == 0 and (ky < 0 or (ky == 0 and kx <= 0)):
                        continue
                    n2 = kx * kx + ky * ky + kz * kz
                    if n2 > kmax * kmax:
                        continue
                    k2 = n2 * two_pi_over_l ** 2
                    weight = 2.0 * 4.0 * math.pi / length ** 3 * math.exp(-k2 / (4.0 * self.alpha ** 2)) / k2
                    self.kvectors.append((kx * two_pi_over_l, ky * two_pi_over_l, kz * two_pi_over_l, weight))

    def energy(self, separation):
        x, y, z = separation
        length, alpha = self.length, self.alpha
        total = 0.0
        for i in self.images:
            dx = x + i * length
            for j in self.images:
                dy = y + j * length
                for k in self.images:
                    dz = z + k * length
                    r = math.sqrt(dx * dx + dy * dy + dz * dz)
                    total += math.erfc(alpha * r) / r
        for kx, ky, kz, weight in self.kvectors:
            total += weight * math.cos(kx * x + ky * y + kz * z)
        total -= math.pi / (alpha * alpha * length ** 3)
        return total

    def derivative(self, velocity, separation):
        speed = math.sqrt(sum(v * v for v in velocity))
        r = math.sqrt(sum(s * s for s in separation))
        h = 1e-4 * min(r, self.length) / speed
        plus = self.energy([s - v * h for s, v in zip(separation, velocity)])
        minus = self.energy([s + v * h for s, v in zip(separation, velocity)])
        return (plus - minus) / (2.0 * h)
