"""schedsim: seeded operation histories on the schedulers (DESIGN.md section 3.2, C06).

Histories of push / trash / get / pickle round trip / counter fast-forward that respect the mediator protocol are
executed simultaneously on HeapScheduler, ListScheduler and a dictionary model.
"""
import math
import random


class H(object):
    """Stand-in event handler (the schedulers only need identity and a class name)."""

    def __init__(self, index):
        self.index = index

    def __repr__(self):
        return "H%d" % self.index


TWO32 = 2 ** 32
NEAR_ONE = math.nextafter(1.0, 0.0)
REMAINDERS = [0.0, 0.5, NEAR_ONE, 0.25, 5e-324, 0.1, 0.7071067811865476, math.nextafter(0.5, 0.0)]


def generate(rng, length, n_handlers, directed=True):
    """Return a list of abstract operations; concrete handler/time choices are made here, so a history is a plain
    JSON-able list that can be replayed and shrunk:
      ["push", h, dq, r]   push for handler h at (last returned quotient + dq, r) (clamped to >= last returned time)
      ["push_inf", h]
      ["trash", h] ["get"] ["get_trash"] ["pickle"] ["ffwd", h, k]   (counter := 2**32 - k)
      ["fill", target_mod]  directed: push/trash cycles until the physical entry count reaches a capacity boundary
    Preconditions (h live / not live) are resolved at execution time: an operation whose precondition does not hold is
    skipped and counted."""
    ops = []
    style = rng.choice(["mixed", "churn", "growth", "ties", "overflow"])
    if rng.random() < 0.08:
        # a very large heap: tens of thousands of lazily deleted entries below a few live ones, then ordinary operations
        ops.append(["burst", rng.choice([3000, 17000, 17000, 40000])])
    for _ in range(length):
        x = rng.random()
        h = rng.randrange(n_handlers)
        if style == "ties":
            dq, r = rng.choice([0, 0, 0, 1]), rng.choice(REMAINDERS[:3])
        else:
            dq = rng.choice([0, 0, 0, 1, 2, 7, 1000])
            r = rng.choice(REMAINDERS) if rng.random() < 0.5 else rng.random()
        if style == "churn":
            if x < 0.45:
                ops.append(["push", h, dq, r])
            elif x < 0.85:
                ops.append(["trash", h])
            elif x < 0.97:
                ops.append(["get_trash"])
            else:
                ops.append(["pickle"])
        elif style == "growth":
            if x < 0.6:
                ops.append(["push", h, dq + 1, r])
            elif x < 0.8:
                ops.append(["trash", h])
            elif x < 0.9:
                ops.append(["get"])
            elif x < 0.96 and directed:
                ops.append(["fill", rng.choice([0, 1, 2, 3])])
                ops.append(rng.choice([["ffwd_push", h, 0, dq, r], ["get"], ["pickle"], ["get_trash"]]))
            else:
                ops.append(["get_trash"])
        elif style == "overflow":
            if x < 0.25:
                ops.append(["ffwd", h, rng.choice([0, 1, 2, 3])])
            elif x < 0.6:
                ops.append(["push", h, dq, r])
            elif x < 0.85:
                ops.append(["trash", h])
            elif x < 0.9 and directed:
                ops.append(["fill", rng.choice([0, 1, 2])])
                ops.append(["ffwd_push", h, rng.choice([0, 0, 1]), dq, r])
            else:
                ops.append(["get_trash"])
        else:
            if x < 0.35:
                ops.append(["push", h, dq, r])
            elif x < 0.4:
                ops.append(["push_inf", h])
            elif x < 0.65:
                ops.append(["trash", h])
            elif x < 0.8:
                ops.append(["get_trash"])
            elif x < 0.9:
                ops.append(["get"])
            elif x < 0.93:
                ops.append(["pickle"])
            elif x < 0.97:
                ops.append(["ffwd", h, rng.choice([0, 1, 2, 3])])
            else:
                ops.append(["get"])
    return ops


class Failure(Exception):
    def __init__(self, oracle, index, detail):
        super().__init__(oracle)
        self.oracle, self.index, self.detail = oracle, index, detail


def physical_entries(heap_scheduler):
    """Number of physical heap entries (live + lazily deleted), read through the public pickling protocol."""
    try:
        return len(heap_scheduler.__getstate__()["heap_entries"])
    except Exception:
        return None


def capacity(heap_scheduler, n):
    """Capacity (in entries) of the C array: from the scheduler's byte count if it exposes one, else inferred from the
    number of physical entries (exact only while nothing has been removed)."""
    try:
        from jellyfysh.scheduler.heap_scheduler._heap import ffi
        size = heap_scheduler._allocated_memory_bytes // ffi.sizeof("struct HeapEntry")
        if size >= 64:
            return size
    except Exception:
        pass
    size = 64
    while size - 2 < n:
        size *= 2
    return size


def run_history(ops, n_handlers, stats=None, schedulers=("heap", "list")):
    """Execute one history on heap, list and model.  Raises Failure on the first oracle violation."""
    import dill
    from jellyfysh.base.time import Time
    from jellyfysh.base.exceptions import SchedulerError
    from jellyfysh.scheduler.heap_scheduler import HeapScheduler
    from jellyfysh.scheduler.list_scheduler import ListScheduler
    stats = stats if stats is not None else {}

    def bump(key, n=1):
        stats[key] = stats.get(key, 0) + n

    handlers = [H(i) for i in range(n_handlers)]
    heap = HeapScheduler() if "heap" in schedulers else None
    lst = ListScheduler() if "list" in schedulers else None
    model = {}                       # handler index -> (q, r)
    last = (0.0, 0.0)
    ffwd_available = heap is not None and hasattr(heap, "_minimal_valid_counter")
    if not ffwd_available:
        bump("fault_kind_unavailable_counter_fast_forward")

    def do_push(i, qr, where):
        t = Time(qr[0], qr[1])
        if heap is not None:
            heap.push_event(t, handlers[i])
        if lst is not None:
            lst.push_event(Time(qr[0], qr[1]), handlers[i])
        model[i] = qr
        bump("push")

    def do_trash(i):
        if heap is not None:
            heap.trash_event(handlers[i])
        if lst is not None:
            lst.trash_event(handlers[i])
        del model[i]
        bump("trash")

    def do_get(index):
        nonlocal last
        finite = {i: qr for i, qr in model.items() if not math.isinf(qr[0])}
        expected = min(finite.values()) if finite else None
        results = {}
        only_infinite = expected is None and bool(model)
        for name, sched in (("heap", heap), ("list", lst)):
            if sched is None:
                continue
            if name == "list" and only_infinite:
                # returning an infinite event would move the list scheduler's clock to infinity, after which no
                # protocol-conforming push exists; the state is not reachable in a run (a timer is always pending)
                bump("list_get_skipped_only_infinite_events_live")
                continue
            try:
                h = sched.get_succeeding_event()
                results[name] = h
            except SchedulerError as exc:
                results[name] = exc
        bump("get")
        if expected is None:
            bump("get_without_finite_live_event")
            if heap is not None and not isinstance(results["heap"], SchedulerError):
                raise Failure("heap_returned_event_without_finite_live_event", index,
                              {"returned": repr(results["heap"]), "model": dict(model)})
            if lst is not None and not model:
                if not isinstance(results["list"], SchedulerError):
                    raise Failure("empty_list_scheduler_did_not_fail", index, {"returned": repr(results["list"])})
            return None
        for name, r in results.items():
            if isinstance(r, SchedulerError):
                raise Failure("%s_scheduler_failed_although_live_event_exists" % name, index,
                              {"error": str(r)[:300], "expected_time": expected})
            if r.index not in model:
                raise Failure("%s_scheduler_returned_trashed_event" % name, index,
                              {"returned": r.index, "live": sorted(model)[:20]})
            if model[r.index] != expected:
                raise Failure("%s_scheduler_returned_non_minimal_event" % name, index,
                              {"returned": r.index, "time": model[r.index], "minimal": expected,
                               "infinite": math.isinf(model[r.index][0])})
        if len(results) == 2 and model[results["heap"].index] != model[results["list"].index]:
            raise Failure("heap_and_list_disagree", index, {})
        last = expected
        if len([1 for qr in finite.values() if qr == expected]) > 1:
            bump("get_with_exact_tie")
        chosen = results.get("heap", results.get("list"))
        return chosen.index

    for index, op in enumerate(ops):
        kind = op[0]
        if kind == "push" or kind == "push_inf":
            i = op[1]
            if i in model:
                bump("skipped_precondition")
                continue
            if kind == "push_inf":
                qr = (math.inf, math.inf)
                bump("push_infinite")
            else:
                qr = (last[0] + op[2], op[3])
                if qr < last:
                    qr = last
            do_push(i, qr, index)
        elif kind == "trash":
            i = op[1]
            if i not in model:
                bump("skipped_precondition")
                continue
            do_trash(i)
        elif kind == "get":
            do_get(index)
        elif kind == "get_trash":
            got = do_get(index)
            if got is not None:
                do_trash(got)
        elif kind == "pickle":
            blob = dill.dumps((heap, lst, handlers))
            heap, lst, handlers = dill.loads(blob)
            bump("pickle_round_trip")
        elif kind in ("ffwd", "ffwd_push"):
            i, k = op[1], op[2]
            if not ffwd_available or i in model:
                bump("skipped_precondition")
                continue
            counters = heap._minimal_valid_counter
            target = TWO32 - k
            if counters.get(handlers[i], 0) <= target:
                counters[handlers[i]] = target
                bump("counter_fast_forward")
                if k == 0:
                    bump("counter_fast_forward_to_overflow")
            if kind == "ffwd_push":
                qr = (last[0] + op[3], op[4])
                if qr < last:
                    qr = last
                before = physical_entries(heap)
                do_push(i, qr, index)
                if k == 0 and before is not None:
                    slack = capacity(heap, before) - 2 - before
                    bump("overflow_push_with_%s_free_slots" % (slack if slack < 3 else "many"))
        elif kind == "burst":
            free = [i for i in range(n_handlers) if i not in model]
            if len(free) < 1:
                bump("skipped_precondition")
                continue
            # keep one early live event so that nothing of what follows reaches the root
            anchor = None
            if len(free) > 1:
                anchor = free.pop()
                do_push(anchor, (last[0], max(last[1], 0.0)), index)
            for k in range(op[1]):
                i = free[k % len(free)]
                do_push(i, (last[0] + 5 + (k * 7919) % 1000, ((k * 104729) % 997) / 997.0), index)
                do_trash(i)
            bump("burst")
            got = physical_entries(heap) if heap is not None else None
            if got is not None:
                stats["max_physical_entries"] = max(stats.get("max_physical_entries", 0), got)
        elif kind == "fill":
            # directed placement: bring the number of physical entries to a capacity boundary (size - 3 + target)
            if heap is None:
                continue
            n = physical_entries(heap)
            if n is None:
                bump("fault_kind_unavailable_directed_fill")
                continue
            size = capacity(heap, n)
            goal = size - 3 + op[1] if op[1] < 3 else size - 2
            goal = max(goal, n)
            free = [i for i in range(n_handlers) if i not in model]
            spins = 0
            while n < goal and free and spins < 400:
                i = free[spins % len(free)]
                qr = (last[0] + 3 + spins % 5, 0.5)
                do_push(i, qr, index)
                do_trash(i)
                n += 1
                spins += 1
            bump("directed_fill")
            got = physical_entries(heap)
            if got is not None:
                slack = capacity(heap, got) - 2 - got
                if slack < 2:
                    bump("directed_fill_reached_boundary")
                stats["max_physical_entries"] = max(stats.get("max_physical_entries", 0), got)
        else:
            raise ValueError(op)
    # final drain: every remaining live event comes out in order
    remaining = len(model)
    for _ in range(remaining + 1):
        if not any(not math.isinf(qr[0]) for qr in model.values()):
            break
        got = do_get(len(ops))
        if got is None:
            break
        do_trash(got)
    final_physical = physical_entries(heap) if heap is not None else None
    if final_physical is not None:
        stats["max_physical_entries"] = max(stats.get("max_physical_entries", 0), final_physical)
    return stats
