"""Batch driver: plans tasks from one seed, runs them on forked workers with watchdogs, minimises and writes replay
files for violations, writes the evidence file, decides the exit code (DESIGN.md 2.1, 2.5, 2.6, 2.7)."""
import concurrent.futures
import faulthandler
import hashlib
import importlib
import json
import multiprocessing
import os
import random
import sys
import time
import traceback
from collections import Counter

VERIF = os.path.dirname(os.path.dirname(os.path.abspath(__file__)))
EVIDENCE_DIR = os.environ.get("VERIF_EVIDENCE_DIR") or os.path.join(VERIF, "evidence")
REPLAY_DIR = os.environ.get("VERIF_REPLAY_DIR") or os.path.join(VERIF, "replays")
KNOWN_FINDINGS = os.path.join(VERIF, "known_findings.json")

_PKG = {"dir": None}


def derive_seed(master, prop, index):
    h = hashlib.sha256(("%d/%s/%d" % (master, prop, index)).encode()).digest()
    return int.from_bytes(h[:6], "big")


def load_prop(prop_id):
    return importlib.import_module("dst.props." + prop_id.lower())


def _worker_execute(args):
    prop_id, task, timeout = args
    faulthandler.dump_traceback_later(timeout, exit=True)
    try:
        prop = load_prop(prop_id)
        started = time.time()
        try:
            summary = prop.execute(task, _PKG["dir"])
        except BaseException as exc:  # harness failure inside a worker: report, never a verdict
            summary = {"status": "harness_error",
                       "error": "".join(traceback.format_exception(type(exc), exc, exc.__traceback__))}
        summary["wall"] = time.time() - started
        return summary
    finally:
        faulthandler.cancel_dump_traceback_later()


def execute_here(prop_id, task):
    return _worker_execute((prop_id, task, 3600))


def execute_in_fresh_fork(prop_id, task, timeout=1800):
    """One task in a process forked for it alone: whatever an earlier execution left behind in process-wide state of
    the system under simulation (a mutated module-level object, a floating-point mode) cannot decide the outcome, so
    what minimisation keeps also replays in a fresh interpreter."""
    ctx = multiprocessing.get_context("fork")
    with concurrent.futures.ProcessPoolExecutor(max_workers=1, mp_context=ctx) as pool:
        try:
            return pool.submit(_worker_execute, (prop_id, task, timeout)).result()
        except concurrent.futures.process.BrokenProcessPool as exc:
            return {"status": "harness_error", "violations": [], "error": "worker died: %r" % (exc,)}


def load_known_findings():
    try:
        with open(KNOWN_FINDINGS) as f:
            return json.load(f)
    except FileNotFoundError:
        return {"findings": [], "fixed": []}


def matches_finding(finding, prop_id, violation, task):
    if finding.get("property") not in (prop_id, "*"):
        return False
    match = finding.get("match", {})
    if "oracle" in match and match["oracle"] != violation.get("oracle"):
        return False
    for key, value in match.get("task", {}).items():
        node = task
        for part in key.split("."):
            if not isinstance(node, dict) or part not in node:
                return False
            node = node[part]
        if node != value:
            return False
    for key, value in match.get("detail", {}).items():
        if violation.get("detail", {}).get(key) != value:
            return False
    return True


def signature_of(violation):
    return {"property": violation["property"], "oracle": violation["oracle"],
            "crash": (violation.get("detail") or {}).get("crash_signature")}


def minimise(prop_id, prop, task, violation, budget=30):
    """Shrink the task while the same oracle of the same property keeps failing."""
    want = signature_of(violation)
    best_task, best_violation = task, violation
    used = 0

    def still_fails(candidate):
        nonlocal used
        used += 1
        summary = execute_in_fresh_fork(prop_id, candidate)
        for v in summary.get("violations", []):
            if signature_of(v) == want:
                return v
        return None

    candidates = prop.shrink_candidates if hasattr(prop, "shrink_candidates") else default_shrink_candidates
    progress = True
    while progress and used < budget:
        progress = False
        for candidate in candidates(best_task, best_violation):
            if used >= budget:
                break
            v = still_fails(candidate)
            if v is not None:
                best_task, best_violation = candidate, v
                progress = True
                break
    return best_task, best_violation, used


def default_shrink_candidates(task, violation):
    """Generic shrinking for runsim-style tasks: cut the run after the failing step, drop knobs one by one."""
    scn = task.get("scenario")
    if not isinstance(scn, dict):
        return
    step = violation.get("step")
    if isinstance(step, int) and scn.get("max_events", 10 ** 9) > step + 2:
        t = json.loads(json.dumps(task))
        t["scenario"]["max_events"] = step + 2
        yield t
    for fault_index in range(len(scn.get("faults", []))):
        t = json.loads(json.dumps(task))
        del t["scenario"]["faults"][fault_index]
        yield t
    for section, options in list(scn.get("set", {}).items()):
        for option in list(options):
            if task.get("pinned") and [section, option] in task["pinned"]:
                continue
            t = json.loads(json.dumps(task))
            del t["scenario"]["set"][section][option]
            if not t["scenario"]["set"][section]:
                del t["scenario"]["set"][section]
            yield t


def write_replay(prop_id, task, violation, master_seed, minimised, reexecutions):
    os.makedirs(REPLAY_DIR, exist_ok=True)
    name = "%s-%s.json" % (prop_id, hashlib.sha256(json.dumps(task, sort_keys=True).encode()).hexdigest()[:12])
    path = os.path.join(REPLAY_DIR, name)
    with open(path, "w") as f:
        json.dump({"property": prop_id, "master_seed": master_seed, "task": task,
                   "signature": {"property": violation["property"], "oracle": violation["oracle"],
                                 "step": violation.get("step")},
                   "violation": violation, "minimised": minimised, "minimisation_reexecutions": reexecutions},
                  f, indent=1, sort_keys=True, default=str)
    return path


def run_replay(prop_id, path, package_dir):
    _PKG["dir"] = package_dir
    with open(path) as f:
        replay = json.load(f)
    prop = load_prop(prop_id)
    summary = execute_here(prop_id, replay["task"])
    want = replay["signature"]
    for v in summary.get("violations", []):
        if v["property"] == want["property"] and v["oracle"] == want["oracle"] and v.get("step") == want.get("step"):
            print("REPRODUCED %s" % json.dumps(v, default=str)[:2000])
            print("VIOLATION property=%s replay=%s" % (prop_id, path))
            return 1
    print("NOT REPRODUCED: status=%s violations=%s error=%s" % (
        summary.get("status"), json.dumps(summary.get("violations", []), default=str)[:1000],
        (summary.get("error") or "")[-1500:]))
    return 0 if summary.get("status") not in ("harness_error",) else 2


def run_check(prop_id, tier, master_seed, package_dir, workers=None, only_plan=False):
    _PKG["dir"] = package_dir
    prop = load_prop(prop_id)
    started = time.time()
    budget = prop.BUDGET[tier]
    tasks = prop.plan(tier, master_seed)
    if only_plan:
        return tasks
    workers = workers or int(os.environ.get("VERIF_WORKERS", "0")) or min(16, os.cpu_count() or 1)
    timeout = budget.get("task_timeout", 300)
    ctx = multiprocessing.get_context("fork")
    summaries = []
    skipped = 0
    harness_errors = []
    with concurrent.futures.ProcessPoolExecutor(max_workers=workers, mp_context=ctx) as pool:
        pending = {}
        queue = list(enumerate(tasks))
        queue.reverse()
        try:
            while queue or pending:
                while queue and len(pending) < workers * 2:
                    if time.time() - started > budget["wall"]:
                        skipped += len(queue)
                        queue = []
                        break
                    index, task = queue.pop()
                    pending[pool.submit(_worker_execute, (prop_id, task, timeout))] = (index, task)
                if not pending:
                    break
                done, _ = concurrent.futures.wait(pending, return_when=concurrent.futures.FIRST_COMPLETED)
                for fut in done:
                    index, task = pending.pop(fut)
                    summary = fut.result()
                    summary["index"] = index
                    summary["task"] = summary.pop("resolved_task", None) or task
                    summaries.append(summary)
        except concurrent.futures.process.BrokenProcessPool as exc:
            harness_errors.append("worker died (watchdog or crash of the interpreter): %r" % (exc,))
    summaries.sort(key=lambda s: s["index"])
    return finish(prop_id, prop, tier, master_seed, tasks, summaries, skipped, harness_errors, started)


def finish(prop_id, prop, tier, master_seed, tasks, summaries, skipped, harness_errors, started):
    known = load_known_findings()
    violations = []
    known_hits = []
    status_count = Counter()
    probes = Counter()
    faults = Counter()
    kinds = Counter()
    distinct = set()
    observed_max = {}
    nontrivial = 0
    events = draws = 0
    sim_time = 0.0
    samples = []
    for s in summaries:
        status_count[s.get("status", "?")] += 1
        if s.get("status") == "harness_error":
            harness_errors.append((s.get("error") or "")[-3000:])
            continue
        for key, value in s.get("probes", {}).items():
            if key.startswith("max_"):
                probes[key] = max(probes[key], value)
            else:
                probes[key] += value
        for key, value in (s.get("notes") or {}).items():
            if isinstance(value, (int, float)) and not isinstance(value, bool):
                observed_max[key] = max(observed_max.get(key, value), value)
        for key, value in s.get("faults", {}).items():
            faults[key] += value
        for key, value in s.get("kinds", {}).items():
            kinds[key] += value
        events += s.get("events", 0)
        draws += s.get("draws", 0)
        sim_time += s.get("final_time") or 0.0
        for item in s.get("distinct", []):
            distinct.add(item if isinstance(item, str) else json.dumps(item, sort_keys=True))
        if s.get("nontrivial"):
            nontrivial += 1
        if len(samples) < 3 and s.get("sample") is not None:
            samples.append(s["sample"])
        for v in s.get("violations", []):
            hit = None
            for finding in known.get("findings", []):
                if matches_finding(finding, prop_id, v, s["task"]):
                    hit = finding
                    break
            if hit is not None:
                known_hits.append((hit, v, s["task"]))
            else:
                violations.append((v, s["task"]))
    analysis_coverage = {}
    if hasattr(prop, "analyse") and not harness_errors:
        extra, analysis_coverage = prop.analyse(summaries)
        for v, task in extra:
            hit = None
            for finding in known.get("findings", []):
                if matches_finding(finding, prop_id, v, task):
                    hit = finding
                    break
            if hit is not None:
                known_hits.append((hit, v, task))
            else:
                violations.append((v, task))
    exit_code = 0
    printed = set()
    for hit, v, task in known_hits:
        key = hit.get("id") or hit.get("text")
        if key in printed:
            continue
        printed.add(key)
        print("KNOWN-FINDING: property=%s %s" % (prop_id, hit.get("text", "")))
    replay_paths = []
    reported = set()
    for v, task in violations:
        sig = (v["property"], v["oracle"])
        if sig in reported and len(replay_paths) >= 3:
            continue
        reported.add(sig)
        try:
            small_task, small_v, used = minimise(prop_id, prop, task, v)
        except BaseException as exc:
            small_task, small_v, used = task, v, 0
        path = write_replay(prop_id, small_task, small_v, master_seed, small_task != task, used)
        replay_paths.append(path)
        print("violation: %s" % json.dumps(small_v, default=str)[:3000])
        print("VIOLATION property=%s replay=%s" % (prop_id, path))
        exit_code = 1
        if len(replay_paths) >= 5:
            break
    wall = time.time() - started
    if not samples:
        samples = [s.get("task") for s in summaries[:2]]
    runs = len(summaries)
    coverage = {
        "evaluations": runs,
        "distinct_nontrivial": nontrivial if not hasattr(prop, "distinct_nontrivial") else prop.distinct_nontrivial(
            summaries),
        "rule": prop.RULE,
        "samples": samples,
        "runs_per_hour": round(runs / wall * 3600.0, 1) if wall > 0 else None,
        "tasks_planned": len(tasks),
        "tasks_skipped_for_wall_budget": skipped,
        "status_counts": dict(status_count),
        "events_committed": events,
        "draws_consumed": draws,
        "simulated_time_covered": sim_time,
        "event_kinds": dict(kinds),
        "faults_fired": dict(faults),
        "probes": dict(probes),
        "largest_observed": observed_max,
        "distinct_behaviours": len(distinct),
        "distinct_behaviours_measure": getattr(prop, "DISTINCT_MEASURE", "distinct 4-grams of (handler kind, "
                                               "active unit changed) in the commit sequences"),
        "real_code": getattr(prop, "REAL_CODE", "everything under jellyfysh/ (scratch copy of /repo's working tree)"),
        "stubbed": getattr(prop, "STUBBED", "none (single process); output files go to a private scratch directory"),
        "known_findings_reobserved": len(known_hits),
        "harness_errors": len(harness_errors),
    }
    if hasattr(prop, "extra_coverage"):
        coverage.update(prop.extra_coverage(summaries))
    if analysis_coverage:
        coverage["analysis"] = analysis_coverage
    evidence = {
        "property_id": prop_id,
        "tier": tier,
        "seed": master_seed,
        "level": getattr(prop, "LEVEL", "exploration"),
        "coverage": coverage,
        "assumptions": getattr(prop, "ASSUMPTIONS", []),
        "wall_s": round(wall, 2),
        "violations": len(violations),
    }
    os.makedirs(EVIDENCE_DIR, exist_ok=True)
    with open(os.path.join(EVIDENCE_DIR, prop_id + ".json"), "w") as f:
        json.dump(evidence, f, indent=1, sort_keys=True, default=str)
    print("%s %s seed=%d: %d runs (%s) in %.1fs, %d events, %d non-trivial, %d violations, %d known findings"
          % (prop_id, tier, master_seed, runs, dict(status_count), wall, events, coverage["distinct_nontrivial"],
             len(violations), len(known_hits)))
    if harness_errors:
        print("HARNESS ERROR (%d):\n%s" % (len(harness_errors), harness_errors[0]), file=sys.stderr)
        if exit_code == 0:
            exit_code = 2
    if exit_code == 0 and coverage["distinct_nontrivial"] < 2:
        print("HARNESS ERROR: fewer than two non-trivial cases were explored", file=sys.stderr)
        exit_code = 2
    return exit_code
