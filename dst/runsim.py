"""runsim: one whole run of a mediator on a scenario under the harness, with monitors attached (DESIGN.md 3.1)."""
import hashlib
import io
import os
import shutil
import sys
import tempfile
import traceback
import uuid as _uuid_module
from collections import Counter

from . import scenario as scenario_module
from . import seams
from .seams import HUB, FACADE, HarnessError, Monitor


class StopRun(BaseException):
    """Raised by the harness to end a run at its event cap (BaseException: the system must not swallow it)."""


class ViolationStop(BaseException):
    """Raised by a monitor right after it recorded a violation."""


class Violation(object):
    def __init__(self, prop, oracle, step, detail):
        self.prop, self.oracle, self.step, self.detail = prop, oracle, step, detail

    def signature(self):
        return {"property": self.prop, "oracle": self.oracle, "step": self.step}

    def as_dict(self):
        return {"property": self.prop, "oracle": self.oracle, "step": self.step, "detail": self.detail}


def fhex(x):
    return x.hex() if isinstance(x, float) else repr(x)


def unit_record(unit):
    ts = unit.time_stamp
    return (tuple(unit.identifier),
            tuple(unit.position) if unit.position is not None else None,
            tuple(unit.velocity) if unit.velocity is not None else None,
            (ts.quotient, ts.remainder) if ts is not None else None)


def walk_units(cnodes):
    stack = list(reversed(list(cnodes)))
    while stack:
        cnode = stack.pop()
        yield cnode.value
        stack.extend(reversed(cnode.children))


def walk_cnodes(cnodes):
    stack = list(reversed(list(cnodes)))
    while stack:
        cnode = stack.pop()
        yield cnode
        stack.extend(reversed(cnode.children))


def snapshot_state(cnodes):
    """dict identifier -> (position, velocity, (q, r)) with tuples (immutable deep copy)."""
    return {rec[0]: rec[1:] for rec in (unit_record(u) for u in walk_units(cnodes))}


def handler_kind(handler):
    import jellyfysh.event_handler.abstracts as abstracts
    from jellyfysh.event_handler.abstracts.cell_veto_event_handler import CellVetoEventHandler
    from jellyfysh.event_handler.cell_boundary_event_handler import CellBoundaryEventHandler
    from jellyfysh.event_handler.root_leaf_unit_active_switcher import RootLeafUnitActiveSwitcher
    if isinstance(handler, abstracts.SamplingEventHandler):
        return "sampling"
    if isinstance(handler, abstracts.EndOfChainEventHandler):
        return "end_of_chain"
    if isinstance(handler, abstracts.EndOfRunEventHandler):
        return "end_of_run"
    if isinstance(handler, abstracts.StartOfRunEventHandler):
        return "start_of_run"
    if isinstance(handler, abstracts.DumpingEventHandler):
        return "dumping"
    if isinstance(handler, RootLeafUnitActiveSwitcher):
        return "mode_switch"
    if isinstance(handler, CellBoundaryEventHandler):
        return "cell_boundary"
    if isinstance(handler, CellVetoEventHandler):
        return "cell_veto"
    return "interaction"


class Context(object):
    """Per-run state shared by the monitors."""

    def __init__(self, scenario, sections, out_dir):
        self.scenario = scenario
        self.sections = sections
        self.out_dir = out_dir
        self.violations = []
        self.probes = Counter()
        self.step = 0                # number of committed events so far
        self.now = None              # Time of the event being committed
        self.current_handler = None
        self.mediator = None
        self.state_handler = None
        self.scheduler = None
        self.activator = None
        self.io = None
        self.taggers = []
        self.internal_states = []
        self.handler_tagger = {}     # event handler -> tagger
        self.handler_index = {}      # event handler -> index in the activator's list
        self.kind_cache = {}
        self.pending = {}            # shadow scheduler: handler -> Time
        self.G = self.G_prev = self.initial_G = None   # global-state snapshots (after / before the last commit)
        self.S = None
        self.out_records = []
        self.setting = None
        self.notes = {}

    def kind(self, handler):
        try:
            return self.kind_cache[handler]
        except KeyError:
            k = handler_kind(handler)
            self.kind_cache[handler] = k
            return k

    def tag_of(self, handler):
        tagger = self.handler_tagger.get(handler)
        return tagger.tag if tagger is not None else None

    def violation(self, prop, oracle, detail, stop=True):
        v = Violation(prop, oracle, self.step, detail)
        self.violations.append(v)
        if stop:
            raise ViolationStop()
        return v


class Core(Monitor):
    """Always-attached monitor: shadow scheduler, step counter, commit log digest, event cap."""
    name = "core"

    def __init__(self, ctx, max_events, keep_log=False):
        self.ctx = ctx
        self.max_events = max_events
        self.sha = hashlib.sha256()
        self.keep_log = keep_log
        self.log = []
        self.kinds = Counter()
        self.grams = set()
        self._last_kinds = ()
        self._prev_active = None
        self.final_time = None
        self.writes = 0
        self.write_sha = hashlib.sha256()
        self.write_log = []
        self.faults = [dict(f) for f in ctx.scenario.get("faults", [])]

    def on_activator_built(self, activator, args, kwargs, info):
        self.ctx.activator_object = activator
        taggers = kwargs.get("taggers", args[0] if args else ())
        internal_states = kwargs.get("internal_states", args[1] if len(args) > 1 else ())
        self.ctx.taggers = list(taggers)
        self.ctx.internal_states = list(internal_states)

    def on_mediator(self, mediator, io_handler, state_handler, scheduler, activator):
        ctx = self.ctx
        ctx.mediator, ctx.io, ctx.state_handler, ctx.scheduler, ctx.activator = (
            mediator, io_handler, state_handler, scheduler, activator)
        for tagger in ctx.taggers:
            for handler in tagger.get_event_handlers():
                ctx.handler_tagger[handler] = tagger
        for index, handler in enumerate(activator.get_event_handlers()):
            ctx.handler_index[handler] = index
        cnodes = state_handler.extract_global_state()
        ctx.G = snapshot_state(cnodes)
        ctx.G_prev = ctx.G
        ctx.initial_G = ctx.G
        ctx.S = dict(ctx.G)      # shadow built from the initial state and the committed out-states only
        ctx.charges = {tuple(u.identifier): (dict(u.charge) if u.charge is not None else None)
                       for u in walk_units(cnodes)}
        ctx.children = {tuple(c.value.identifier): [tuple(k.value.identifier) for k in c.children]
                        for c in walk_cnodes(cnodes)}
        ctx.weights = {tuple(c.value.identifier): c.weight for c in walk_cnodes(cnodes)}
        ctx.roots = [tuple(c.value.identifier) for c in cnodes]

    def on_to_run(self, activator, active_state, preceding, result):
        # fault injection between two legs: pickle round trip of a collaborator (what a dump / resume does to it)
        ctx = self.ctx
        for fault in self.faults:
            every = fault.get("every")
            if every:
                # a restart storm: the fault repeats every ``every`` legs (at most 40 times)
                due = ctx.step >= fault["at_step"] and (ctx.step - fault["at_step"]) % every == 0 \
                    and fault.get("fired", 0) < 40 and fault.get("last") != ctx.step
            else:
                due = fault["at_step"] == ctx.step and not fault.get("done")
            if due:
                fault["done"] = True
                fault["fired"] = fault.get("fired", 0) + 1
                fault["last"] = ctx.step
                handlers = list(ctx.activator.get_event_handlers())
                if fault["kind"] == "scheduler_pickle":
                    ctx.scheduler = seams.pickle_round_trip("scheduler", handlers)
                elif fault["kind"] == "state_handler_pickle":
                    ctx.state_handler = seams.pickle_round_trip("state_handler", handlers)
                elif fault["kind"] == "event_handlers_pickle":
                    from jellyfysh.activator.internal_state.cell_occupancy.cells.cells import Cells, Cell
                    for h in seams.HUB.h_on_handlers_restoring:
                        h(handlers)
                    seams.restore_in_place(handlers, (Cells, Cell))
                    for h in seams.HUB.h_on_handlers_restored:
                        h(handlers)
                ctx.probes["fault_" + fault["kind"]] += 1

    def on_push(self, scheduler, time, handler):
        self.ctx.pending[handler] = time

    def on_trash(self, scheduler, handler):
        self.ctx.pending.pop(handler, None)

    def on_get_failed(self, scheduler, exc):
        """Facts about a refused get, from the shadow scheduler: is the earliest candidate a (normalised) time that
        lies before the time of the last commit by no more than a rounding error?"""
        from fractions import Fraction
        import math
        ctx = self.ctx
        finite = [t for t in ctx.pending.values() if not math.isinf(t.quotient)]
        if not finite or ctx.now is None:
            return
        earliest = min(finite, key=lambda t: (t.quotient, t.remainder))

        def normalised(t):
            return t.quotient == math.floor(t.quotient) and 0.0 <= t.remainder < 1.0

        behind = (Fraction(ctx.now.quotient) + Fraction(ctx.now.remainder)
                  - Fraction(earliest.quotient) - Fraction(earliest.remainder))
        ctx.notes["refused_get"] = {"normalised": normalised(earliest) and normalised(ctx.now),
                                    "behind_by": float(behind)}

    def on_get(self, scheduler, handler):
        ctx = self.ctx
        if ctx.step >= self.max_events:
            raise StopRun()
        ctx.current_handler = handler
        ctx.now = ctx.pending.get(handler)
        guard = ctx.scenario.get("storm_guard")
        if guard and ctx.now is not None and ctx.step % int(guard[0]) == 0:
            # an event storm (two unlike point charges without a repulsive core falling onto each other): the run is
            # stopped when ``guard[0]`` events advance the clock by less than ``guard[1]``
            t = ctx.now.quotient + ctx.now.remainder
            last = getattr(self, "_storm_reference", None)
            if last is not None and t - last < guard[1]:
                ctx.notes["event_storm_at"] = t
                raise StopRun()
            self._storm_reference = t

    def on_insert_end(self, state_handler, out_state):
        ctx = self.ctx
        handler = ctx.current_handler
        kind = ctx.kind(handler)
        now = ctx.now
        records = [unit_record(u) for u in walk_units(out_state)]
        line = "%d|%s|%s|%s|%s" % (ctx.handler_index.get(handler, -1), handler.__class__.__name__,
                                   fhex(now.quotient) if now is not None else "?",
                                   fhex(now.remainder) if now is not None else "?",
                                   ";".join("%r:%s:%s:%s" % (
                                       r[0],
                                       ",".join(fhex(x) for x in r[1]) if r[1] is not None else "-",
                                       ",".join(fhex(x) for x in r[2]) if r[2] is not None else "-",
                                       (fhex(r[3][0]) + "+" + fhex(r[3][1])) if r[3] is not None else "-")
                                            for r in records))
        self.sha.update(line.encode())
        self.sha.update(b"\n")
        if self.keep_log:
            self.log.append((ctx.handler_index.get(handler, -1), handler.__class__.__name__,
                             (now.quotient, now.remainder) if now is not None else None, tuple(records)))
        self.kinds[kind] += 1
        active = tuple(sorted(r[0] for r in records if r[2] is not None))
        changed = active != self._prev_active
        self._prev_active = active
        self._last_kinds = (self._last_kinds + ((kind, changed),))[-4:]
        if len(self._last_kinds) == 4:
            self.grams.add(self._last_kinds)
        if ctx.S is not None:
            for r in records:
                ctx.S[r[0]] = r[1:]
        ctx.G_prev = ctx.G
        ctx.G_cnodes = state_handler.extract_global_state()
        ctx.G = snapshot_state(ctx.G_cnodes)
        ctx.out_records = records
        ctx.step += 1
        self.final_time = now

    def on_write(self, io_handler, name, args):
        self.writes += 1
        self.write_sha.update(name.encode())
        one = hashlib.sha256()
        if args and isinstance(args[0], list):
            for unit in walk_units(args[0]):
                data = repr(tuple((fhex(x) if isinstance(x, float) else x)
                                  for x in _flatten(unit_record(unit)))).encode()
                self.write_sha.update(data)
                one.update(data)
        if self.keep_log:
            self.write_log.append((self.ctx.step, name, one.hexdigest()))

    def digest(self):
        h = hashlib.sha256()
        h.update(self.sha.digest())
        h.update(self.write_sha.digest())
        h.update(("draws=%d" % FACADE.count).encode())
        return h.hexdigest()


def _flatten(rec):
    for item in rec:
        if isinstance(item, tuple):
            for x in _flatten(item):
                yield x
        else:
            yield item


def reset_globals():
    import jellyfysh.setting as setting
    import jellyfysh.base.factory as factory
    import jellyfysh.base.uuid as jf_uuid
    from jellyfysh.activator.tagger.factor_type_maps import FactorTypeMaps
    setting.reset()
    factory.used_sections.clear()
    FactorTypeMaps._instance = None
    jf_uuid._uuid = None


class RunResult(object):
    def __init__(self):
        self.status = "ok"           # ok | capped | invalid | violation | crash | harness_error
        self.violations = []
        self.digest = None
        self.events = 0
        self.draws = 0
        self.final_time = None
        self.kinds = {}
        self.grams = set()
        self.probes = Counter()
        self.error = None
        self.crash_files = []
        self.log = None
        self.writes = 0
        self.notes = {}

    def summary(self):
        return {"status": self.status, "events": self.events, "draws": self.draws, "digest": self.digest,
                "final_time": self.final_time, "kinds": dict(self.kinds), "error": self.error,
                "violations": [v.as_dict() for v in self.violations]}


def _crash_info(exc):
    tb = traceback.extract_tb(exc.__traceback__)
    files = [frame.filename for frame in tb]
    text = "".join(traceback.format_exception(type(exc), exc, exc.__traceback__))
    return files, text


def _harness_raised(exc):
    """True if the innermost frame of the traceback lies in /verif code (harness bug, not a verdict)."""
    tb = traceback.extract_tb(exc.__traceback__)
    if not tb:
        return True
    here = os.path.dirname(os.path.abspath(__file__))
    return os.path.abspath(tb[-1].filename).startswith(here)


def run_scenario(scn, monitor_factories, package_dir, keep_log=False, crash_property=None, keep_dir=False,
                 before_run=None):
    """Execute one scenario.  ``monitor_factories`` are callables ``ctx -> Monitor``."""
    import jellyfysh.base.factory as factory
    import jellyfysh.base.uuid as jf_uuid
    from jellyfysh.base.exceptions import EndOfRun, ConfigurationError
    from jellyfysh.base.strings import to_camel_case
    import jellyfysh.setting as setting

    seams.install()
    result = RunResult()
    reset_globals()
    out_dir = tempfile.mkdtemp(prefix="jfrun-", dir=os.environ.get("VERIF_SCRATCH_BASE") or None)
    saved_stdout = sys.stdout
    sys.stdout = io.StringIO()
    saved_cwd = os.getcwd()
    core = None
    try:
        sections = scenario_module.resolve(scn, package_dir)
        config = scenario_module.to_config(sections, package_dir, out_dir)
        ctx = Context(scn, sections, out_dir)
        ctx.setting = setting
        ctx.package_dir = package_dir
        core = Core(ctx, scn.get("max_events", 10 ** 9), keep_log=keep_log)
        FACADE.seed(scn["seed"])
        FACADE.count = 0
        FACADE.override = None
        monitors = [core] + [f(ctx) for f in monitor_factories]
        jf_uuid._uuid = _uuid_module.UUID(int=scn["seed"] & ((1 << 128) - 1))
        HUB.attach(monitors)
        os.chdir(package_dir)
        try:
            try:
                factory.build_from_config(config, to_camel_case(config.get("Run", "setting")), "jellyfysh.setting")
                mediator = factory.build_from_config(config, to_camel_case(config.get("Run", "mediator")),
                                                     "jellyfysh.mediator")
            except ConfigurationError as exc:
                result.status = "invalid"
                result.error = repr(exc)
                return result
            except HarnessError:
                raise
            except Exception as exc:
                # a configuration the factory cannot build (e.g. a cell system without any far cell): discarded and
                # counted, never a verdict -- unless the failure lies in harness code
                if _harness_raised(exc):
                    raise
                result.status = "invalid"
                result.error = "".join(traceback.format_exception(type(exc), exc, exc.__traceback__))[-1500:]
                # where the construction died: a property whose own code raises while building one of the generator's
                # (well-formed) configurations reports it (props/common.py), everybody else discards the scenario
                result.construction_crash_files = _crash_info(exc)[0]
                return result
            ctx.mediator_built = mediator
            if before_run is not None:
                before_run(ctx, mediator)
            try:
                mediator.run()
            except EndOfRun:
                result.status = "ok"
            except StopRun:
                result.status = "capped"
            for m in monitors:
                if hasattr(m, "at_end"):
                    m.at_end(result.status)
            mediator.post_run()
        except ViolationStop:
            result.status = "violation"
        except HarnessError as exc:
            result.status = "harness_error"
            result.error = "".join(traceback.format_exception(type(exc), exc, exc.__traceback__))
        except Exception as exc:
            files, text = _crash_info(exc)
            if _harness_raised(exc):
                result.status = "harness_error"
            elif scn.get("expect_handler_shortage") and type(exc).__name__ == "TagActivatorError":
                # the scenario owns too few event handlers on purpose: the activator's error is the correct outcome
                result.status = "stopped_by_shortage_error"
                ctx.probes["handler_shortage_reported_by_activator"] += 1
            else:
                result.status = "crash"
            result.error = text
            result.crash_files = files
        except BaseException as exc:
            if not getattr(exc, "verif_abort", False):
                raise
            result.status = "aborted"
            result.abort = exc
        if ctx.violations:
            result.status = "violation"
        result.violations = list(ctx.violations)
        result.probes = ctx.probes
        result.notes = ctx.notes
        if seams.bypass_count():
            result.status = "harness_error"
            result.error = "draws escaped the PRNG facade: %d" % seams.bypass_count()
        return result
    finally:
        HUB.detach()
        FACADE.override = None
        os.chdir(saved_cwd)
        sys.stdout = saved_stdout
        if core is not None:
            result.digest = core.digest()
            result.events = core.ctx.step
            result.kinds = core.kinds
            result.grams = core.grams
            result.writes = core.writes
            result.final_time = (core.final_time.quotient + core.final_time.remainder
                                 if core.final_time is not None else None)
            if keep_log:
                result.log = core.log
                result.write_log = core.write_log
        result.draws = FACADE.count
        if keep_dir:
            result.out_dir = out_dir
        else:
            shutil.rmtree(out_dir, ignore_errors=True)
