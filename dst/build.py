"""Scratch build of /repo's current working tree (DESIGN.md section 2.1).

The package directory is copied to a fresh directory outside /repo and /verif, the three cffi extension modules are
compiled there with the repository's own ``*_build.py`` scripts (the ``.so`` files are git-ignored), and the scratch
directory is put first on ``sys.path``.  A failure here is a harness error (exit 2), never a verdict.
"""
import atexit
import os
import shutil
import subprocess
import sys
import tempfile

REPO = os.environ.get("VERIF_REPO", "/repo")
PYTHON = sys.executable

BUILD_SCRIPTS = [
    "jellyfysh/scheduler/heap_scheduler/heap_build.py",
    "jellyfysh/potential/merged_image_coulomb_potential/merged_image_coulomb_potential_build.py",
    "jellyfysh/potential/inverse_power_coulomb_bounding_potential/inverse_power_coulomb_bounding_potential_build.py",
]


class BuildError(Exception):
    pass


def _cleanup(path, owner_pid):
    if os.getpid() == owner_pid:
        shutil.rmtree(path, ignore_errors=True)


def scratch_build(asan=False, keep=False):
    """Copy /repo/jellyfysh to a fresh scratch directory, build the C extensions there, return the directory."""
    base = os.environ.get("VERIF_SCRATCH_BASE") or tempfile.gettempdir()
    scratch = tempfile.mkdtemp(prefix="jfverif-", dir=base)
    if not keep:
        atexit.register(_cleanup, scratch, os.getpid())
    src = os.path.join(REPO, "jellyfysh")
    if not os.path.isdir(src):
        raise BuildError("no package directory at %s" % src)
    subprocess.run(["rsync", "-a", "--exclude", "__pycache__", "--exclude", "*.so", "--exclude", "*.o",
                    "--exclude", "_heap.c", "--exclude", "_merged_image_coulomb_potential.c",
                    "--exclude", "_inverse_power_coulomb_bounding_potential.c",
                    src + "/", os.path.join(scratch, "jellyfysh") + "/"], check=True)
    procs = []
    env = dict(os.environ)
    if asan:
        env["VERIF_ASAN"] = "1"
    for script in BUILD_SCRIPTS:
        if asan and "heap" not in script:
            # only the heap is instrumented; the potentials are built normally
            pass
        code = (
            "import runpy, sys, os\n"
            "ns = runpy.run_path(%r)\n"
            "b = ns['ffi_builder']\n"
            "if os.environ.get('VERIF_ASAN') and 'heap' in %r:\n"
            "    name, src, srcext, kw = b._assigned_source\n"
            "    kw = dict(kw)\n"
            "    kw['extra_compile_args'] = ['-fsanitize=address,undefined', '-fno-omit-frame-pointer', '-g', '-O1']\n"
            "    kw['extra_link_args'] = ['-fsanitize=address,undefined']\n"
            "    b._assigned_source = (name, src, srcext, kw)\n"
            "b.compile(verbose=False)\n" % (script, script))
        procs.append((script, subprocess.Popen([PYTHON, "-c", code], cwd=scratch, env=env,
                                               stdout=subprocess.PIPE, stderr=subprocess.STDOUT)))
    for script, proc in procs:
        out, _ = proc.communicate(timeout=600)
        if proc.returncode != 0:
            raise BuildError("building %s failed:\n%s" % (script, out.decode(errors="replace")[-4000:]))
    return scratch


def activate(scratch):
    """Make the scratch copy the ``jellyfysh`` that gets imported and verify that."""
    if scratch in sys.path:
        sys.path.remove(scratch)
    sys.path.insert(0, scratch)
    for name in list(sys.modules):
        if name == "jellyfysh" or name.startswith("jellyfysh."):
            raise BuildError("jellyfysh was imported before the scratch copy was activated")
    import jellyfysh
    where = os.path.realpath(os.path.dirname(jellyfysh.__file__))
    if where != os.path.realpath(os.path.join(scratch, "jellyfysh")):
        raise BuildError("jellyfysh imported from %s, expected the scratch copy %s" % (where, scratch))
    return where
