"""Seeded scenario generation (swarm style, DESIGN.md section 2.2).  Only configurations a user could write."""
import os
import random
import re

from . import scenario as scenario_module

_FACTOR_LINE = re.compile(r"\[((?:[0-9]+, )*[0-9]+)\], ([A-Za-z]+)")


def factor_lines(package_dir, relative):
    result = []
    if relative.startswith("@generated:"):
        source = relative[len("@generated:"):].split(";")
    else:
        with open(os.path.join(package_dir, relative)) as f:
            source = f.readlines()
    if True:
        for line in source:
            if line.startswith("#"):
                continue
            m = _FACTOR_LINE.match(line)
            if m:
                result.append(([int(x) for x in m.group(1).split(", ")], m.group(2)))
    return result


NODES_PER_ROOT = {"atom_random_node_creator": 1, "dipole_random_node_creator": 2, "water_random_node_creator": 3}


def scale_units(sections, package_dir, n_roots, set_out, input_section="RandomInputHandler"):
    """Set the number of root nodes and give every tagger enough event handlers (a generous upper bound)."""
    set_out.setdefault(input_section, {})["number_of_root_nodes"] = str(n_roots)
    if input_section == "RandomInputHandler":
        per_root = NODES_PER_ROOT[sections["RandomInputHandler"]["random_node_creator"]]
    else:
        per_root = int(sections[input_section].get("nodes_per_root_node", "1"))
    taggers = scenario_module.tagger_sections(sections)
    factor_file = sections.get("FactorTypeMaps", {}).get("filename")
    lines = factor_lines(package_dir, factor_file) if factor_file else []
    others = max(1, n_roots - 1)
    for alias, (section, cls) in taggers.items():
        options = sections.get(section, {})
        if cls == "factor_type_map_in_state_tagger":
            label = options.get("factor_type_maps_label", alias)
            label = scenario_module.camel(label)
            mine = [idx for idx, name in lines if name == label]
            if mine:
                local = all(max(idx) < per_root for idx in mine)
                count = len(mine) * per_root * (1 if local else others)
            else:
                count = per_root * per_root * others
            set_out.setdefault(section, {})["number_event_handlers"] = str(max(1, count))
        elif cls in ("excluded_cells_tagger", "surplus_cells_tagger", "cell_bounding_potential_tagger"):
            set_out.setdefault(section, {})["number_event_handlers"] = str(max(1, others * per_root))
    return set_out


FAMILIES = {
    # name: (base, dict of knob ranges)
    "atoms_power": {"base": "2018_JCP_149_064113/coulomb_atoms/power_bounded.ini", "n": (2, 10), "cost": 1},
    "atoms_power_many": {"base": "2018_JCP_149_064113/coulomb_atoms/power_bounded.ini", "n": (20, 40), "cost": 2,
                         "special": True},
    "atoms_power_huge": {"base": "2018_JCP_149_064113/coulomb_atoms/power_bounded.ini", "n": (100, 130), "cost": 6,
                         "special": True, "force_heap": True, "long": True},
    "atoms_cellb": {"base": "2018_JCP_149_064113/coulomb_atoms/cell_bounded.ini", "n": (2, 16), "cells": True,
                    "cost": 3},
    "atoms_cellv": {"base": "2018_JCP_149_064113/coulomb_atoms/cell_veto.ini", "n": (2, 16), "cells": True,
                    "veto": True,
                    "cost": 3},
    "dip_atom": {"base": "2018_JCP_149_064113/dipoles/atom_factors.ini", "n": (2, 5), "cost": 1},
    "dip_atom_ff": {"base": "2018_JCP_149_064113/dipoles/atom_factors.ini", "n": (2, 5), "cost": 1,
                    "factor_swarm": True},
    "chain_ff": {"base": "harness:chain_molecules", "n": (2, 3), "cost": 2, "lattice": True, "factor_swarm": "chain"},
    "dip_motion_ff": {"base": "2018_JCP_149_064113/dipoles/dipole_motion.ini", "n": (2, 4), "cost": 1,
                      "factor_swarm": "motion"},
    "dip_in": {"base": "2018_JCP_149_064113/dipoles/dipole_factors_inside_first.ini", "n": (2, 5), "cost": 1},
    "dip_out": {"base": "2018_JCP_149_064113/dipoles/dipole_factors_outside_first.ini", "n": (2, 5), "cost": 1},
    "dip_ratio": {"base": "2018_JCP_149_064113/dipoles/dipole_factors_ratio.ini", "n": (2, 5), "cost": 1},
    "dip_motion": {"base": "2018_JCP_149_064113/dipoles/dipole_motion.ini", "n": (2, 4), "cost": 1},
    "dip_cellb": {"base": "2018_JCP_149_064113/dipoles/cell_bounded.ini", "n": (2, 8), "cells": True, "cost": 4,
                  "cheap": {"DipoleMonteCarloEstimator": {"number_trials": "40"}}},
    "dip_cellv": {"base": "2018_JCP_149_064113/dipoles/cell_veto.ini", "n": (2, 8), "cells": True, "cost": 4,
                  "veto": True,
                  "cheap": {"DipoleMonteCarloEstimator": {"number_trials": "40"}}},
    "water_vv": {"base": "2018_JCP_149_064113/water/coulomb_cell_veto_lj_cell_veto.ini", "n": (2, 5), "cost": 4},
    "water_vi": {"base": "2018_JCP_149_064113/water/coulomb_cell_veto_lj_inverted.ini", "n": (2, 5), "cost": 4,
                 "cheap": {"DipoleMonteCarloEstimator": {"number_trials": "40"}}},
    "water_pb": {"base": "2018_JCP_149_064113/water/coulomb_power_bounded_lj_cell_bounded.ini", "n": (2, 5),
                 "cost": 4},
    "water_pi": {"base": "2018_JCP_149_064113/water/coulomb_power_bounded_lj_inverted.ini", "n": (2, 5), "cost": 2},
    "water_one": {"base": "2018_JCP_149_064113/water/single_molecule.ini", "n": (1, 1), "cost": 1},
    "hdd_one": {"base": "hard_disk_dipoles/single_hard_disk_dipole.ini", "n": (1, 1), "cost": 1},
    # harness-built systems (harness_bases.py)
    "soft": {"base": "harness:soft_spheres", "n": (2, 10), "cost": 1},
    "lj": {"base": "harness:lj_atoms", "n": (2, 8), "cost": 1},
    "soft_disks": {"base": "harness:soft_disks", "n": (2, 10), "cost": 1},
    "hard_spheres": {"base": "harness:hard_spheres", "n": (2, 8), "cost": 1, "lattice": True, "chain_cap": True},
    "hard_disks": {"base": "harness:hard_disks", "n": (2, 9), "cost": 1, "lattice": True, "chain_cap": True},
    "hdd": {"base": "harness:hard_disk_dipoles", "n": (9, 9), "cost": 2, "lattice": True, "fixed_n": True,
            "chain_cap": True},
    "cuboid_cells": {"base": "harness:cuboid_hard_cells", "n": (4, 16), "cost": 1, "lattice": True,
                     "chain_cap": True, "cuboid": True},
    "dense_cells": {"base": "harness:cuboid_hard_cells", "n": (12, 30), "cost": 2, "lattice": True,
                    "chain_cap": True, "cuboid": True, "dense": True},
    "cuboid_soft": {"base": "harness:cuboid_soft", "n": (2, 8), "cost": 1, "chain_cap": True, "cuboid": True},
    "water_motion": {"base": "harness:water_motion", "n": (2, 4), "cost": 2},
    "water_cb": {"base": "harness:water_cell_bounded_coulomb", "n": (2, 4), "cost": 3},
    "dip_atom_phase": {"base": "harness:dip_atom_phase", "n": (2, 4), "cost": 1},
    "hdd_cells": {"base": "harness:hard_disk_dipoles_cells", "n": (9, 9), "cost": 2, "lattice": True,
                  "fixed_n": True, "chain_cap": True},
}


def find_section_with(sections, option):
    return [name for name, opts in sections.items() if option in opts]


def generate(rng, family, package_dir, events=2000, vary=True, shipped_n=False):
    """Return a scenario of the given family with knobs drawn from ``rng``."""
    spec = FAMILIES[family]
    base = spec["base"]
    sections = scenario_module.base_sections(package_dir, base)
    set_out = {}
    for section, options in spec.get("cheap", {}).items():
        if section in sections:
            set_out.setdefault(section, {}).update(options)
    if spec.get("factor_swarm") == "chain" and vary:
        # molecules of six point masses: bonds along the chain, random subsets of the 36 pairs between two molecules
        # for the two pair factor types (indices of the second molecule have two digits from 10 on)
        def pair(a, b):
            return "[%d, %d]" % ((a, b) if rng.random() < 0.7 else (b, a))
        lines = [pair(k, k + 1) + ", Harmonic" for k in range(5)]
        cross = [(a, 6 + b) for a in range(6) for b in range(6)]
        for label in ("Repulsive", "Coulomb"):
            chosen = rng.sample(cross, rng.randint(3, 10))
            if not any(b >= 10 for _, b in chosen):
                chosen.append((rng.randrange(6), rng.choice([10, 11])))
            lines.extend(pair(a, b) + ", " + label for a, b in chosen)
        value = "@generated:" + ";".join(lines)
        sections["FactorTypeMaps"]["filename"] = value
        set_out.setdefault("FactorTypeMaps", {})["filename"] = value
    elif spec.get("factor_swarm") and vary:
        # a generated well-formed factor file: the intra-molecular bond plus random subsets of the four inter-
        # molecular index pairs for each pair factor type
        pairs = ["[0, 2]", "[0, 3]", "[1, 2]", "[1, 3]"]
        if rng.random() < 0.5:
            # the format does not require sorted index lists
            pairs = [p if rng.random() < 0.5 else "[%s, %s]" % (p[4], p[1]) for p in pairs]
        lines = ["[0, 1], Harmonic" if rng.random() < 0.7 else "[1, 0], Harmonic"]
        labels = ("Repulsive", "Coulomb")
        if spec["factor_swarm"] == "motion":
            # dipole_motion.ini: pair factors only for the repulsion, the Coulomb factor couples two whole dipoles
            labels = ("Repulsive",)
        for label in labels:
            chosen = [p for p in pairs if rng.random() < 0.6] or [rng.choice(pairs)]
            rng.shuffle(chosen)
            lines.extend("%s, %s" % (p, label) for p in chosen)
        if spec["factor_swarm"] == "motion":
            lines.append("[0, 1, 2, 3], Coulomb")
        value = "@generated:" + ";".join(lines)
        sections["FactorTypeMaps"]["filename"] = value
        set_out.setdefault("FactorTypeMaps", {})["filename"] = value
    lo, hi = spec["n"]
    input_section = "LatticeInputHandler" if spec.get("lattice") else "RandomInputHandler"
    if shipped_n or not vary or spec.get("fixed_n"):
        n = int(sections[input_section]["number_of_root_nodes"])
    else:
        n = rng.randint(lo, hi)
    if n != int(sections[input_section]["number_of_root_nodes"]) or spec.get("factor_swarm"):
        scale_units(sections, package_dir, n, set_out, input_section)
    if vary and spec.get("cuboid"):
        dim = rng.choice([2, 3]) if "cells" in family else 3
        lengths = [rng.choice([1.0, 1.5, 2.0, 3.0]) for _ in range(dim)]
        set_out.setdefault("HypercuboidSetting", {}).update(
            {"system_lengths": ", ".join(repr(x) for x in lengths), "dimension": str(dim)})
        if "CuboidPeriodicCells" in sections:
            # cell sides of at least 0.22 (sphere diameter 0.1, jitter), at least 3 cells per side
            cells = [max(3, min(rng.randint(3, 7), int(length / 0.22))) for length in lengths]
            if spec.get("dense"):
                # few large cells, small spheres: several units per cell, surplus lists with more than one entry
                cells = [3 for _ in lengths]
                set_out.setdefault("HardSpherePotential", {})["radius"] = "0.02"
                set_out.setdefault("LatticeInputHandler", {})["jitter"] = "0.02"
            set_out.setdefault("CuboidPeriodicCells", {})["cells_per_side"] = ", ".join(map(str, cells))
            set_out.setdefault("SingleActiveCellOccupancy", {})["maximum_number_occupants"] = str(
                rng.choice([1, 1, 2, -1]))
        chain = 0.2 * min(lengths)
        for section in find_section_with(sections, "chain_time"):
            sections[section]["chain_time"] = repr(chain)
            set_out.setdefault(section, {})["chain_time"] = repr(chain)
    if vary and "system_length" in sections.get("HypercubicSetting", {}) and not spec.get("lattice") and (
            rng.random() < 0.4):
        # the box length is free in every shipped configuration (a cube); values whose square is not an integer and
        # grids on which k * side / side does not round back onto k
        current = float(sections["HypercubicSetting"]["system_length"])
        factor = rng.choice([1.5, 2.5, 3.3, 1.86, 1.3, 0.8 if "atoms" in family else 1.1])
        set_out.setdefault("HypercubicSetting", {})["system_length"] = repr(round(current * factor, 6))
    if vary and family in ("soft", "lj", "soft_disks") and rng.random() < 0.2:
        # a dilute system: free flights that last several time units (across more than one integer time)
        set_out.setdefault("HypercubicSetting", {})["system_length"] = repr(rng.choice([6.0, 13.7, 20.0]))
        for section in find_section_with(sections, "chain_time"):
            sections[section]["chain_time"] = repr(rng.choice([2.9, 4.3, 7.1]))
            set_out.setdefault(section, {})["chain_time"] = sections[section]["chain_time"]
        for section in find_section_with(sections, "sampling_interval"):
            sections[section]["sampling_interval"] = repr(rng.choice([1.7, 3.3]))
            set_out.setdefault(section, {})["sampling_interval"] = sections[section]["sampling_interval"]
    if vary and rng.random() < 0.2:
        # an estimator tuned too low: its bounds are then exceeded now and then (the application only warns)
        for section, options in sections.items():
            if section.endswith("Estimator") and "prefactor" in options:
                set_out.setdefault(section, {})["prefactor"] = repr(round(float(options["prefactor"]) * 0.6, 6))
    if vary:
        # the even power of the displaced (bond) potentials is free; every shipped configuration uses 2
        for section, options in sections.items():
            if "equilibrium_separation" in options and options.get("power") == "2" and rng.random() < 0.3:
                set_out.setdefault(section, {})["power"] = rng.choice(["4", "6"])
    if vary and spec.get("veto") and sections.get("LeafUnitCellVetoEventHandler", {}).get(
            "estimator") == "inner_point_estimator" and rng.random() < 0.3:
        # the other single-point estimator (same options): never used by a shipped configuration
        set_out.setdefault("LeafUnitCellVetoEventHandler", {})["estimator"] = "boundary_point_estimator"
        set_out["BoundaryPointEstimator"] = dict(sections["InnerPointEstimator"])
    if vary and family in ("atoms_cellb", "atoms_cellv") and rng.random() < 0.35:
        # a charge filter on a signed charge (the shipped filter is the 0/1 oxygen indicator)
        set_out.setdefault("SingleActiveCellOccupancy", {})["charge"] = "electric_charge"
        set_out.setdefault("ElectricChargeValues", {})["charge_values"] = rng.choice(["-1", "-1", "1", "-0.5"])
    if vary:
        # scheduler
        if rng.random() < 0.5:
            current = sections["SingleProcessMediator"]["scheduler"]
            set_out.setdefault("SingleProcessMediator", {})["scheduler"] = (
                "list_scheduler" if current == "heap_scheduler" else "heap_scheduler")
        # sampling interval and chain time
        for section in find_section_with(sections, "sampling_interval"):
            if rng.random() < 0.7:
                value = float(sections[section]["sampling_interval"]) * rng.choice([0.13, 0.5, 1.0, 2.3])
                if rng.random() < 0.35:
                    # awkward decimals (not representable, sums that round onto an integer)
                    value = rng.choice([0.3, 0.05, 0.15, 0.1, 0.7, 1.1, 0.25, 0.2]) * rng.choice([1.0, 1.0, 10.0])
                set_out.setdefault(section, {})["sampling_interval"] = repr(value)
            if rng.random() < 0.3:
                current = sections[section].get("first_event_time_zero", "false").lower() in ("true", "1", "yes")
                set_out.setdefault(section, {})["first_event_time_zero"] = "false" if current else "true"
        for section in find_section_with(sections, "chain_time"):
            if rng.random() < 0.7:
                value = float(sections[section]["chain_time"]) * rng.choice(
                    [0.1, 0.37, 1.0] if spec.get("chain_cap") else [0.1, 0.37, 1.0, 3.1])
                set_out.setdefault(section, {})["chain_time"] = repr(value)
        for section in find_section_with(sections, "chain_length"):
            if rng.random() < 0.5:
                value = float(sections[section]["chain_length"]) * rng.choice([0.3, 1.0, 2.7])
                set_out.setdefault(section, {})["chain_length"] = repr(value)
        # initial active unit and direction
        start = sections.get("InitialChainStartOfRunEventHandler")
        if start is not None:
            dim = int(set_out.get("HypercuboidSetting", {}).get("dimension") or sections.get(
                "HypercubicSetting", sections.get("HypercuboidSetting", {})).get("dimension", 3))
            set_out.setdefault("InitialChainStartOfRunEventHandler", {})["initial_direction_of_motion"] = str(
                rng.randrange(dim))
            if "speed" in start and not spec.get("chain_cap") and rng.random() < 0.35:
                # the speed is free in every shipped configuration (all of them use 1.0)
                set_out["InitialChainStartOfRunEventHandler"]["speed"] = repr(rng.choice([0.5, 2.0, 1.7, 0.3]))
            ident = scenario_module.split_list(start["initial_active_identifier"])
            ident[0] = str(rng.randrange(n))
            if len(ident) == 2 and input_section == "RandomInputHandler":
                ident[1] = str(rng.randrange(NODES_PER_ROOT[sections[input_section]["random_node_creator"]]))
            set_out["InitialChainStartOfRunEventHandler"]["initial_active_identifier"] = ", ".join(ident)
        # cell system knobs
        if spec.get("cells") and "CuboidPeriodicCells" in sections:
            dim = int(sections.get("HypercubicSetting", {}).get("dimension", 3))
            if rng.random() < 0.7:
                layers = 1
                # a cell-veto system needs at least one cell outside the nearby ones in every direction
                cells = [rng.randint(4 if spec.get("veto") else 3, 6) for _ in range(dim)]
                if rng.random() < 0.25:
                    # finer grids in some directions (k * side / side does not round back onto k on every grid)
                    cells = [rng.choice([c, 7, 8, 9, 11]) for c in cells]
                set_out.setdefault("CuboidPeriodicCells", {})["cells_per_side"] = ", ".join(map(str, cells))
            if spec.get("occupants") and "SingleActiveCellOccupancy" in sections and rng.random() < 0.6:
                set_out.setdefault("SingleActiveCellOccupancy", {})["maximum_number_occupants"] = str(
                    rng.choice([1, 1, 2, -1]))
    shortage = False
    if vary and (spec.get("cells") or spec.get("cuboid")) and n >= 5 and rng.random() < 0.12:
        # deliberately too few event handlers for the explicit pair events: the run is then expected to stop with the
        # activator's own error the first time a tagger demands more than it owns (never to continue silently)
        taggers = scenario_module.tagger_sections(sections)
        for alias, (section, cls) in taggers.items():
            if cls in ("excluded_cells_tagger", "surplus_cells_tagger"):
                set_out.setdefault(section, {})["number_event_handlers"] = str(rng.randint(1, 3))
                shortage = True
    faults = []
    if vary and rng.random() < 0.5:
        for _ in range(rng.randint(1, 3)):
            faults.append({"kind": rng.choice(["scheduler_pickle", "scheduler_pickle", "state_handler_pickle",
                                               "event_handlers_pickle", "event_handlers_pickle"]),
                           "at_step": rng.randrange(2, max(3, events // 2))})
    if vary and rng.random() < 0.15:
        # a restart storm: one kind of pickle round trip repeated every few legs
        faults.append({"kind": rng.choice(["event_handlers_pickle", "event_handlers_pickle", "scheduler_pickle",
                                           "state_handler_pickle"]),
                       "at_step": rng.randrange(2, 40), "every": rng.choice([3, 7, 19, 53])})
    if spec.get("force_heap"):
        set_out.setdefault("SingleProcessMediator", {})["scheduler"] = "heap_scheduler"
    scn = {"base": base, "family": family, "set": set_out, "seed": rng.getrandbits(40), "max_events": events,
           "faults": faults, "expect_handler_shortage": shortage,
           "end_time": round(rng.choice([3.0, 10.0, 30.0, 100.0, 0.6, 7.05, 30.3, 12.1]) if vary else 50.0, 3),
           "n_roots": n}
    if spec.get("factor_swarm") and vary:
        # the generated factor file is well formed by construction (bonds inside the first molecule, pairs of one
        # point mass of the first and one of the second molecule), in the format of the shipped files
        scn["well_formed_factor_file"] = True
    if spec.get("long"):
        scn["end_time"] = 100.0
    return scn


def plan_families(master_seed, prop, count, families=None, events=2000, weights=None):
    """A deterministic list of scenarios for one property."""
    from .driver import derive_seed
    names = families or list(FAMILIES)
    result = []
    for index in range(count):
        rng = random.Random(derive_seed(master_seed, prop, index))
        family = names[index % len(names)] if weights is None else rng.choices(names, weights)[0]
        result.append((family, rng))
    return result
