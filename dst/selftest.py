"""Determinism self-test (DESIGN.md section 2.3): the same run seeds are executed twice on the worker pool, once on a
single worker, and once in fresh interpreters under another PYTHONHASHSEED; the event-log digests must agree."""
import concurrent.futures
import json
import multiprocessing
import os
import random
import subprocess
import sys
import tempfile
import time

from . import gen, runsim
from .driver import derive_seed

HERE = os.path.dirname(os.path.abspath(__file__))
_PKG = {"dir": None}


def _digest(task):
    rng = random.Random(task["rng_seed"])
    scn = gen.generate(rng, task["family"], _PKG["dir"], events=task["events"])
    result = runsim.run_scenario(scn, [], _PKG["dir"])
    return {"digest": result.digest, "status": result.status, "events": result.events, "draws": result.draws}


def child_main(spec_path):
    from . import build, boot, seams
    with open(spec_path) as f:
        spec = json.load(f)
    package_dir = build.activate(spec["scratch"])
    boot.import_all(package_dir)
    seams.install()
    import logging
    logging.disable(logging.CRITICAL)
    _PKG["dir"] = package_dir
    out = [_digest(task) for task in spec["tasks"]]
    with open(spec["result"], "w") as f:
        json.dump(out, f)
    return 0


def run(package_dir, master_seed, count=64, events=600, children=8):
    _PKG["dir"] = package_dir
    scratch_root = os.path.dirname(package_dir)
    families = [name for name, spec in gen.FAMILIES.items() if not spec.get('special')]
    tasks = [{"family": families[i % len(families)], "rng_seed": derive_seed(master_seed, "selftest", i),
              "events": events} for i in range(count)]
    ctx = multiprocessing.get_context("fork")
    started = time.time()
    with concurrent.futures.ProcessPoolExecutor(max_workers=16, mp_context=ctx) as pool:
        first = list(pool.map(_digest, tasks))
        second = list(pool.map(_digest, list(reversed(tasks))))
        second.reverse()
    with concurrent.futures.ProcessPoolExecutor(max_workers=1, mp_context=ctx) as pool:
        single = list(pool.map(_digest, tasks[:max(8, count // 4)]))
    work = tempfile.mkdtemp(prefix="jfself-")
    procs = []
    try:
        for c in range(children):
            chunk = tasks[c::children]
            spec = {"scratch": scratch_root, "tasks": chunk, "result": os.path.join(work, "r%d.json" % c)}
            path = os.path.join(work, "s%d.json" % c)
            with open(path, "w") as f:
                json.dump(spec, f)
            env = dict(os.environ, PYTHONHASHSEED=str(1000 + c), PYTHONDONTWRITEBYTECODE="1")
            procs.append((c, spec, subprocess.Popen([sys.executable, "-B", os.path.join(HERE, "cli.py"),
                                                     "_digest-child", path], env=env,
                                                    stdout=subprocess.DEVNULL, stderr=subprocess.PIPE)))
        fresh = [None] * count
        for c, spec, proc in procs:
            _, err = proc.communicate(timeout=900)
            if proc.returncode != 0 or not os.path.exists(spec["result"]):
                print("HARNESS ERROR: digest child failed: %s" % err.decode(errors="replace")[-2000:], file=sys.stderr)
                return 2
            with open(spec["result"]) as f:
                for i, item in zip(range(c, count, children), json.load(f)):
                    fresh[i] = item
    finally:
        import shutil
        shutil.rmtree(work, ignore_errors=True)
    bad = 0
    for i, task in enumerate(tasks):
        digests = {first[i]["digest"], second[i]["digest"], fresh[i]["digest"]}
        if i < len(single):
            digests.add(single[i]["digest"])
        if len(digests) != 1:
            bad += 1
            print("NONDETERMINISTIC: %s seed=%d: pool=%s pool(reversed order)=%s fresh interpreter=%s" % (
                task["family"], task["rng_seed"], first[i], second[i], fresh[i]))
    events_total = sum(r["events"] for r in first)
    print("selftest: %d scenarios x (2 pool runs + fresh interpreter with another PYTHONHASHSEED, %d also on a single "
          "worker), %d events each pass, %d mismatches, %.1fs" % (count, len(single), events_total, bad,
                                                                 time.time() - started))
    return 1 if bad else 0
