"""crashsim: dump, crash, restart in a fresh interpreter, resume (DESIGN.md section 3.4).

The reference run executes a scenario with a dumping tagger to its end; every dump file is copied aside at the moment
it has been written.  A resumed process is a *fresh interpreter* that sees only the scratch directory: it executes the
repository's own ``resume.main()`` on a chosen dump copy, with the harness recording commits and writes through the
proxies that travel inside the pickled mediator.  The continuation must equal the tail of the reference bit for bit.
"""
import hashlib
import io
import json
import os
import shutil
import subprocess
import sys
import traceback

from . import runsim, scenario as scenario_module
from .seams import HUB, FACADE, Monitor, LOADED
from .runsim import unit_record, walk_units, fhex, _flatten, StopRun

HERE = os.path.dirname(os.path.abspath(__file__))


def add_dumping(sections, interval, set_out):
    """Scenario modifications that add a dumping tagger the way power_bounded_dump.ini does."""
    taggers = sections["TagActivator"]["taggers"].rstrip().rstrip(",")
    set_out.setdefault("TagActivator", {})["taggers"] = taggers + ",\ndumping (no_in_state_tagger)"
    set_out["Dumping"] = {"create": "dumping", "trash": "dumping",
                          "event_handler": "fixed_interval_dumping_event_handler"}
    set_out["FixedIntervalDumpingEventHandler"] = {"dumping_interval": repr(interval),
                                                   "output_handler": "dumping_output_handler"}
    set_out["DumpingOutputHandler"] = {"filename": "dump.dat"}
    io_section = sections["InputOutputHandler"]
    set_out.setdefault("InputOutputHandler", {})["output_handlers"] = (
        io_section["output_handlers"].rstrip().rstrip(",") + ", dumping_output_handler")
    for name, options in sections.items():
        if options.get("event_handler", "").strip() in ("initial_chain_start_of_run_event_handler",):
            set_out.setdefault(name, {})["create"] = options["create"].rstrip().rstrip(",") + ", dumping"
        if "end_of_run_event_handler" in options.get("event_handler", ""):
            set_out.setdefault(name, {})["trash"] = options["trash"].rstrip().rstrip(",") + ", dumping"
    return set_out


def _rebuild(cls, state):
    obj = cls.__new__(cls)
    if hasattr(obj, "__setstate__"):
        obj.__setstate__(state)
    else:
        obj.__dict__.update(state)
    return obj


class clock_jump(object):
    """Scoped reducers that shift every pickled Time (and the quotient column of the pickled heap entries) by Q.  They
    are installed only for the duration of one dump: a global entry would also change copy.copy(Time) inside the
    running system."""

    def __init__(self, shift):
        self.shift = float(shift)

    def __enter__(self):
        import copyreg
        from jellyfysh.base.time import Time
        from jellyfysh.scheduler.heap_scheduler.heap_scheduler import HeapScheduler
        shift = self.shift

        def reduce_time(t):
            return (Time, (t.quotient + shift, t.remainder))

        def reduce_heap(h):
            state = dict(h.__getstate__())
            entries = state.get("heap_entries")
            # the layout of the current tree: (quotient, remainder, handler, counter) with plain floats; any other
            # layout is left alone (Time objects inside it are shifted by the reducer above)
            if isinstance(entries, (list, tuple)) and all(
                    isinstance(e, (list, tuple)) and len(e) == 4 and isinstance(e[0], float)
                    and isinstance(e[1], float) for e in entries):
                state["heap_entries"] = [(q + shift, r, handler, counter) for q, r, handler, counter in entries]
            return (_rebuild, (type(h), state))

        self.saved = {cls: copyreg.dispatch_table.get(cls) for cls in (Time, HeapScheduler)}
        copyreg.pickle(Time, reduce_time)
        copyreg.pickle(HeapScheduler, reduce_heap)
        return self

    def __exit__(self, *exc):
        import copyreg
        for cls, old in self.saved.items():
            if old is None:
                copyreg.dispatch_table.pop(cls, None)
            else:
                copyreg.dispatch_table[cls] = old
        return False


class DumpSaver(Monitor):
    """Copies the dump file aside right after each dumping write; can tear the copy (fault injection)."""
    name = "dumpsaver"

    def __init__(self, ctx_or_dir, prefix="dump"):
        self.out_dir = ctx_or_dir if isinstance(ctx_or_dir, str) else ctx_or_dir.out_dir
        self.ctx = None if isinstance(ctx_or_dir, str) else ctx_or_dir
        self.prefix = prefix
        self.dumps = []     # (commit index of the dumping event, path)
        self.step_fn = None
        self.jump = None
        self.jumped = []

    def on_write_end(self, io_handler, name, args):
        if name != "dumping_output_handler":
            return
        files = [f for f in os.listdir(self.out_dir) if f.startswith("dump_") and f.endswith(".dat")]
        if not files:
            return
        src = os.path.join(self.out_dir, sorted(files)[0])
        step = self.ctx.step if self.ctx is not None else self.step_fn()
        dst = os.path.join(self.out_dir, "%s-%06d.copy" % (self.prefix, step))
        shutil.copyfile(src, dst)
        self.dumps.append((step, dst))
        if self.jump is not None and args:
            # clock-jump fault (C14): a second dump of the same moment with every Time shifted by Q
            import dill
            import jellyfysh.setting as setting
            import jellyfysh.base.uuid as uuid
            jumped = os.path.join(self.out_dir, "%s-%06d.jump" % (self.prefix, step))
            with clock_jump(self.jump):
                with open(jumped, "wb") as f:
                    dill.dump([args[0], setting, uuid, FACADE.getstate()], f)
            self.jumped.append((step, jumped))


class ResumeRecorder(Monitor):
    """Commit and write log of a resumed process (no mediator construction is observed there)."""
    name = "resume-recorder"

    def __init__(self, stop_after=None):
        self.log = []
        self.write_log = []
        self.pending = {}
        self.index = None
        self.current = None
        self.now = None
        self.step = 0
        self.stop_after = stop_after

    def _index(self, handler):
        if self.index is None:
            activator = LOADED.get("activator")
            self.index = {h: i for i, h in enumerate(activator.get_event_handlers())} if activator else {}
        return self.index.get(handler, -1)

    def on_push(self, scheduler, time, handler):
        self.pending[handler] = time

    def on_trash(self, scheduler, handler):
        self.pending.pop(handler, None)

    def on_get(self, scheduler, handler):
        if self.stop_after is not None and self.step >= self.stop_after:
            raise StopRun()
        self.current = handler
        self.now = self.pending.get(handler)

    def on_insert_end(self, state_handler, out_state):
        records = tuple(unit_record(u) for u in walk_units(out_state))
        now = self.now
        self.log.append((self._index(self.current), self.current.__class__.__name__,
                         (now.quotient, now.remainder) if now is not None else None, records))
        self.step += 1

    def on_write(self, io_handler, name, args):
        one = hashlib.sha256()
        if args and isinstance(args[0], list):
            for unit in walk_units(args[0]):
                one.update(repr(tuple((fhex(x) if isinstance(x, float) else x)
                                      for x in _flatten(unit_record(unit)))).encode())
        self.write_log.append((self.step, name, one.hexdigest()))


def encode_log(log):
    def enc(x):
        if isinstance(x, float):
            return x.hex()
        if isinstance(x, (tuple, list)):
            return [enc(i) for i in x]
        return x
    return [enc(entry) for entry in log]


def child_main(spec_path):
    """Entry of the fresh interpreter: run the repository's resume.main() on a dump, record, write JSON."""
    with open(spec_path) as f:
        spec = json.load(f)
    out = {"status": "ok", "log": [], "write_log": [], "dumps": [], "error": None}
    try:
        from . import build, boot, seams
        package_dir = build.activate(spec["scratch"])
        boot.import_all(package_dir)
        seams.install()
        import logging
        logging.disable(logging.CRITICAL)
        recorder = ResumeRecorder(stop_after=spec.get("stop_after"))
        saver = DumpSaver(spec["out_dir"], prefix=spec.get("dump_prefix", "redump"))
        saver.step_fn = lambda: recorder.step
        monitors = [recorder, saver]
        clock = None
        if spec.get("shadow_clock"):
            from .monitors.clock import ShadowClock
            seams.install_time_seam()
            clock = ShadowClock(None, every=spec.get("clock_every", 5))
            monitors.append(clock)
        HUB.attach(monitors)
        os.chdir(package_dir)
        import jellyfysh.resume as resume
        sys.argv = ["jellyfysh-resume", spec["dump"]]
        saved = sys.stdout
        sys.stdout = io.StringIO()
        try:
            try:
                resume.main()
            except StopRun:
                out["status"] = "stopped"
        finally:
            sys.stdout = saved
        out["log"] = encode_log(recorder.log)
        out["write_log"] = recorder.write_log
        out["dumps"] = saver.dumps
        out["draws"] = FACADE.count
        if clock is not None:
            out["clock_problems"] = clock.problems[:5]
            out["clock_stats"] = dict(clock.stats, checked=clock.checked, seen=clock.count,
                                      largest_quotient=clock.max_quotient)
    except BaseException as exc:
        out["status"] = "failed"
        out["error"] = "".join(traceback.format_exception(type(exc), exc, exc.__traceback__))[-4000:]
        out["error_type"] = type(exc).__name__
        frames = traceback.extract_tb(exc.__traceback__)
        out["error_in_load"] = any(fr.name in ("load", "_load", "loads") or "dill" in fr.filename or
                                   "pickle" in fr.filename for fr in frames)
    with open(spec["result"], "w") as f:
        json.dump(out, f)
    return 0


def resume_in_fresh_interpreter(scratch_root, dump_path, out_dir, hashseed, stop_after=None, tag="r", timeout=600,
                                shadow_clock=False):
    spec = {"scratch": scratch_root, "dump": dump_path, "out_dir": out_dir, "stop_after": stop_after,
            "shadow_clock": shadow_clock,
            "result": os.path.join(out_dir, "resume-%s.json" % tag), "dump_prefix": "redump-%s" % tag}
    spec_path = os.path.join(out_dir, "resume-%s.spec.json" % tag)
    with open(spec_path, "w") as f:
        json.dump(spec, f)
    env = dict(os.environ)
    env["PYTHONHASHSEED"] = str(hashseed)
    env["PYTHONDONTWRITEBYTECODE"] = "1"
    proc = subprocess.run([sys.executable, "-B", os.path.join(HERE, "cli.py"), "_resume-child", spec_path],
                          env=env, stdout=subprocess.PIPE, stderr=subprocess.PIPE, timeout=timeout)
    if not os.path.exists(spec["result"]):
        return {"status": "no_result", "error": proc.stderr.decode(errors="replace")[-3000:], "log": [],
                "write_log": [], "dumps": []}
    with open(spec["result"]) as f:
        return json.load(f)


def compare_tail(reference_log, reference_writes, start, resumed, allow_short=False, compare_writes=True):
    """Compare the resumed log with the reference entries after index ``start`` (the dumping commit).  Returns None or
    a description of the first difference."""
    ref = encode_log(reference_log[start + 1:])
    got = resumed["log"]
    n = min(len(ref), len(got))
    for i in range(n):
        a, b = ref[i], got[i]
        same = a[0] == b[0] and a[1] == b[1] and a[3] == b[3] and (a[2] is None or b[2] is None or a[2] == b[2])
        if not same:
            return {"at_event_after_dump": i, "reference": a, "resumed": b}
    if len(got) != len(ref) and not (allow_short and len(got) < len(ref)):
        return {"length": {"reference_tail": len(ref), "resumed": len(got)}}
    if not compare_writes:
        return None
    ref_w = [[s - (start + 1), name, digest] for s, name, digest in reference_writes if s > start + 1]
    got_w = [[s, name, digest] for s, name, digest in resumed["write_log"]]
    m = min(len(ref_w), len(got_w))
    for i in range(m):
        if ref_w[i] != got_w[i]:
            return {"write": i, "reference": ref_w[i], "resumed": got_w[i]}
    if len(ref_w) != len(got_w) and not (allow_short and len(got_w) < len(ref_w)):
        return {"writes": {"reference_tail": len(ref_w), "resumed": len(got_w)}}
    return None
