"""Import every module of the scratch copy of jellyfysh up front (the factory imports lazily; seams must be installed
everywhere before a run starts)."""
import importlib
import os
import sys

SKIP_PARTS = ("_build", "plot", "create_examples", "unittests")

_loaded = None


def import_all(package_dir):
    global _loaded
    if _loaded is not None:
        return _loaded
    root = os.path.dirname(package_dir)
    names = []
    for dirpath, dirnames, filenames in os.walk(package_dir):
        dirnames[:] = sorted(d for d in dirnames if d not in ("__pycache__", "output", "config_files", "build"))
        if "__init__.py" not in filenames:
            dirnames[:] = []
            continue
        for fn in sorted(filenames):
            if not fn.endswith(".py"):
                continue
            rel = os.path.relpath(os.path.join(dirpath, fn), root)[:-3]
            mod = rel.replace(os.sep, ".")
            if mod.endswith(".__init__"):
                mod = mod[:-9]
            if any(p in mod for p in SKIP_PARTS):
                continue
            names.append(mod)
    loaded, failed = [], []
    for mod in names:
        try:
            importlib.import_module(mod)
            loaded.append(mod)
        except ModuleNotFoundError as exc:  # optional dependency (MDAnalysis) is not installed
            if exc.name == "MDAnalysis":
                failed.append((mod, repr(exc)))
            else:
                raise
    _loaded = (loaded, failed)
    return _loaded


def jf_modules():
    return [m for n, m in sorted(sys.modules.items()) if (n == "jellyfysh" or n.startswith("jellyfysh.")) and m]
