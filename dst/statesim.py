"""statesim: interleaved simulated clients on the tree state handler against a snapshot-isolation reference model
(DESIGN.md section 3.3, C13)."""
import random


class Failure(Exception):
    def __init__(self, oracle, index, detail):
        super().__init__(oracle)
        self.oracle, self.index, self.detail = oracle, index, detail


def generate(rng, length):
    """A history: header (tree shape) + operations with abstract arguments (resolved modulo what exists)."""
    levels = rng.choice([1, 2, 2])
    header = {"levels": levels, "roots": rng.randint(1, 6), "children": rng.randint(1, 4) if levels == 2 else 0,
              "dimension": rng.choice([2, 3]), "clients": rng.randint(2, 5), "seed": rng.getrandbits(32)}
    ops = []
    for _ in range(length):
        x = rng.random()
        c = rng.randrange(header["clients"])
        if x < 0.28:
            ops.append(["extract", c, rng.randrange(10 ** 6)])
        elif x < 0.62:
            ops.append(["mutate", c, rng.randrange(10 ** 6), rng.choice(
                ["pos", "vel", "ts_update", "ts_replace", "start", "stop", "alias", "vel_replace"]),
                rng.randrange(10 ** 6), rng.random()])
        elif x < 0.82:
            ops.append(["insert", c, rng.randrange(10 ** 6)])
        elif x < 0.88:
            ops.append(["drop", c, rng.randrange(10 ** 6)])
        elif x < 0.92:
            ops.append(["active"])
        elif x < 0.95:
            ops.append(["active_hold", c])
        else:
            ops.append(["global"])
    return header, ops


def _record(unit):
    ts = unit.time_stamp
    return (tuple(unit.position), tuple(unit.velocity) if unit.velocity is not None else None,
            (ts.quotient, ts.remainder) if ts is not None else None)


def _walk(cnode):
    yield cnode
    for child in cnode.children:
        for c in _walk(child):
            yield c


def run_history(header, ops, stats=None):
    import jellyfysh.setting as setting
    from jellyfysh.setting.hypercubic_setting import HypercubicSetting
    from jellyfysh.base.node import Node
    from jellyfysh.base.particle import Particle
    from jellyfysh.base.time import Time
    from jellyfysh.state_handler.tree_state_handler import TreeStateHandler
    from jellyfysh.state_handler.physical_state.tree_physical_state import TreePhysicalState
    from jellyfysh.state_handler.lifting_state.tree_lifting_state import TreeLiftingState
    from .runsim import reset_globals
    stats = stats if stats is not None else {}

    def bump(key, n=1):
        stats[key] = stats.get(key, 0) + n

    reset_globals()
    rng = random.Random(header["seed"])
    dim = header["dimension"]
    HypercubicSetting(beta=1.0, dimension=dim, system_length=1.0)
    setting.set_number_of_root_nodes(header["roots"])
    setting.set_number_of_nodes_per_root_node(max(1, header["children"]) if header["levels"] == 2 else 1)
    setting.set_number_of_node_levels(header["levels"])
    nodes = []
    model = {}
    children = {}
    for r in range(header["roots"]):
        root = Node(Particle([rng.random() for _ in range(dim)], {"q": float(r)}))
        model[(r,)] = (tuple(root.value.position), None, None)
        children[(r,)] = []
        if header["levels"] == 2:
            for k in range(header["children"]):
                child = Node(Particle([rng.random() for _ in range(dim)], {"q": float(10 * r + k)}))
                root.add_child(child)
                model[(r, k)] = (tuple(child.value.position), None, None)
                children[(r,)].append((r, k))
                children[(r, k)] = []
        nodes.append(root)
    handler = TreeStateHandler(TreePhysicalState(), TreeLiftingState())
    handler.initialize(nodes)
    identifiers = sorted(model)
    held = {c: [] for c in range(header["clients"])}      # client -> list of [branch, shadow dict]

    def check_global(index, where):
        state = handler.extract_global_state()
        seen = {}
        for root in state:
            for cnode in _walk(root):
                seen[tuple(cnode.value.identifier)] = _record(cnode.value)
        if seen != model:
            diff = [(k, model.get(k), seen.get(k)) for k in sorted(set(model) | set(seen))
                    if model.get(k) != seen.get(k)][:3]
            raise Failure("global_state_differs_from_model_after_" + where, index, {"differences": diff})

    def check_held(index, where):
        for client, branches in held.items():
            for branch, shadow in branches:
                for cnode in _walk(branch):
                    ident = tuple(cnode.value.identifier)
                    if _record(cnode.value) != shadow[ident]:
                        raise Failure("held_branch_changed_by_" + where, index,
                                      {"client": client, "identifier": ident, "branch": _record(cnode.value),
                                       "expected": shadow[ident]})

    check_global(-1, "initialize")
    for index, op in enumerate(ops):
        kind = op[0]
        if kind == "extract":
            ident = identifiers[op[2] % len(identifiers)]
            branch = handler.extract_from_global_state(ident)
            bump("extract")
            # shape: root ancestor .. node .. all descendants
            expected = set([ident[:i + 1] for i in range(len(ident))])
            stack = [ident]
            while stack:
                x = stack.pop()
                expected.add(x)
                stack.extend(children[x])
            got = {}
            for cnode in _walk(branch):
                got[tuple(cnode.value.identifier)] = cnode
            if set(got) != expected or tuple(branch.value.identifier) != ident[:1]:
                raise Failure("branch_shape_wrong", index, {"asked": ident, "got": sorted(got),
                                                            "expected": sorted(expected)})
            for x, cnode in got.items():
                if _record(cnode.value) != model[x]:
                    raise Failure("branch_values_not_current", index, {"identifier": x,
                                                                       "branch": _record(cnode.value),
                                                                       "model": model[x]})
                if cnode is not branch and tuple(cnode.parent.value.identifier) != x[:-1]:
                    raise Failure("branch_parent_link_wrong", index, {"identifier": x})
            held[op[1]].append([branch, {x: model[x] for x in got}])
        elif kind == "mutate":
            if not held[op[1]]:
                bump("skipped")
                continue
            branch, shadow = held[op[1]][op[2] % len(held[op[1]])]
            cnodes = list(_walk(branch))
            cnode = cnodes[op[4] % len(cnodes)]
            unit = cnode.value
            ident = tuple(unit.identifier)
            what = op[3]
            value = op[5]
            if what == "pos":
                unit.position[op[4] % dim] = value
            elif what == "vel":
                if unit.velocity is None:
                    bump("skipped")
                    continue
                unit.velocity[op[4] % dim] = value - 0.5
            elif what == "vel_replace":
                if unit.velocity is None:
                    bump("skipped")
                    continue
                unit.velocity = [value, 0.0, -value][:dim]
            elif what == "ts_update":
                if unit.time_stamp is None:
                    bump("skipped")
                    continue
                unit.time_stamp.update(Time(float(op[4] % 7), value))
            elif what == "ts_replace":
                if unit.time_stamp is None:
                    bump("skipped")
                    continue
                unit.time_stamp = Time(float(op[4] % 5), value)
            elif what == "start":
                if unit.velocity is not None:
                    bump("skipped")
                    continue
                unit.velocity = [value] + [0.0] * (dim - 1)
                unit.time_stamp = Time(float(op[4] % 3), value)
            elif what == "stop":
                unit.velocity = None
                unit.time_stamp = None
            elif what == "alias":
                # two moving units of one branch share one velocity list and one time stamp object
                moving = [c for c in cnodes if c.value.velocity is not None and c is not cnode]
                if unit.velocity is None or not moving:
                    bump("skipped")
                    continue
                other = moving[op[4] % len(moving)].value
                other.velocity = unit.velocity
                other.time_stamp = unit.time_stamp
                shadow[tuple(other.identifier)] = _record(other)
                bump("alias")
            shadow[ident] = _record(unit)
            for c in cnodes:        # in-place changes of aliased objects show in every unit that shares them
                shadow[tuple(c.value.identifier)] = _record(c.value)
            bump("mutate")
        elif kind == "insert":
            if not held[op[1]]:
                bump("skipped")
                continue
            branch, shadow = held[op[1]].pop(op[2] % len(held[op[1]]))
            handler.insert_into_global_state([branch])
            for x, rec in shadow.items():
                model[x] = rec
            bump("insert")
        elif kind == "drop":
            if held[op[1]]:
                held[op[1]].pop(op[2] % len(held[op[1]]))
        elif kind == "active":
            consistent = True
            expected = []
            for r in range(header["roots"]):
                root = (r,)
                kids = children[root]
                if not kids:
                    if model[root][1] is not None:
                        expected.append(root)
                    continue
                moving = [k for k in kids if model[k][1] is not None]
                if bool(moving) != (model[root][1] is not None):
                    consistent = False
                if moving and len(moving) == len(kids):
                    expected.append(root)
                else:
                    expected.extend(moving)
            if not consistent:
                bump("active_skipped_root_flag_inconsistent")
                continue
            got = []
            for branch in handler.extract_active_global_state():
                node = branch
                ident = tuple(node.value.identifier)
                if children[ident] and len(node.children) == 1 and len(children[ident]) != 1:
                    node = node.children[0]
                got.append(tuple(node.value.identifier))
                for cnode in _walk(branch):
                    if _record(cnode.value) != model[tuple(cnode.value.identifier)]:
                        raise Failure("active_branch_values_not_current", index,
                                      {"identifier": tuple(cnode.value.identifier)})
            if sorted(got) != sorted(expected):
                raise Failure("active_part_not_independent_units", index, {"got": got, "expected": expected})
            bump("active")
        elif kind == "active_hold":
            # a client keeps (and may later mutate) the branches of the active part
            for branch in handler.extract_active_global_state():
                shadow = {}
                for cnode in _walk(branch):
                    ident = tuple(cnode.value.identifier)
                    if _record(cnode.value) != model[ident]:
                        raise Failure("active_branch_values_not_current", index, {"identifier": ident})
                    shadow[ident] = model[ident]
                held[op[1]].append([branch, shadow])
            bump("active_hold")
        elif kind == "global":
            bump("global")
        check_global(index, kind)
        check_held(index, kind)
    return stats
