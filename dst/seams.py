"""Harness-side seams (DESIGN.md sections 1, 2.3, 2.4).

Nothing here edits /repo.  All interception happens through names the code already exposes:

* the four constructor-injected collaborators of a mediator are swapped for transparent forwarding proxies by a
  class-level wrapper around the mediator's public constructor;
* ``send_event_time`` / ``send_out_state`` of every event-handler class, and the public constructors / methods of
  taggers, internal states, potentials, liftings and the walker are wrapped at class level (so that pickling, deep
  copies and ``fork`` keep them);
* the module-level name ``random`` (and ``randint``) of every ``jellyfysh.*`` module is replaced by a facade that
  dispatches to the stream of the current simulated process, reports every draw together with its arguments and call
  site, and lets a monitor substitute the uniform variate underlying a draw.

Everything dispatches to the process-global ``HUB``; with no monitor attached the wrappers are pass-through.
"""
import functools
import math
import random as _real_random
import sys
import threading

from . import boot


class HarnessError(Exception):
    """Raised for failures of the harness itself; never a verdict about the system under simulation."""


class Monitor(object):
    """Base class: override any of the ``on_*`` methods.  Missing methods are never called."""
    name = "monitor"


EVENTS = (
    "on_mediator", "on_activator_built", "on_internal_state_built",
    "on_read", "on_initialize_state",
    "on_extract", "on_extract_active", "on_extract_global",
    "on_insert_begin", "on_insert_end",
    "on_to_run", "on_trashable", "on_info_internal_state",
    "on_push", "on_trash", "on_get", "on_get_failed",
    "on_write", "on_write_end", "on_post_run",
    "on_send_event_time_begin", "on_send_event_time_end",
    "on_send_out_state_begin", "on_send_out_state_end",
    "on_draw", "on_potential_call", "on_lifting_call", "on_walker_built", "on_walker_sample", "on_handlers_restored", "on_handlers_restoring",
    "on_bounding_warning", "on_time_op",
)


class Hub(object):
    def __init__(self):
        self.monitors = []
        self._table = {}
        self.tls = threading.local()
        self.rebuild()

    def rebuild(self):
        self._table = {ev: tuple(getattr(m, ev) for m in self.monitors if hasattr(m, ev)) for ev in EVENTS}
        for ev, handlers in self._table.items():
            setattr(self, "h_" + ev, handlers)

    def attach(self, monitors):
        self.monitors = list(monitors)
        self.rebuild()

    def detach(self):
        self.monitors = []
        self.rebuild()


HUB = Hub()


# ---------------------------------------------------------------------------------------------------------------------
# Collaborator proxies
# ---------------------------------------------------------------------------------------------------------------------

LOADED = {}
PROXIES = {}      # role -> the most recently created proxy (lets a fault swap the collaborator behind it)


class Proxy(object):
    """Transparent forwarding proxy for one constructor-injected collaborator of a mediator.

    Forwarding is by attribute lookup on the target at call time (``TagActivator`` replaces its own
    ``get_event_handlers_to_run`` on the instance after the first call).  The proxy holds no harness state, so a
    dumped mediator can be loaded in a fresh interpreter that has this module importable.
    """
    __slots__ = ("_target", "_role")

    def __init__(self, target, role):
        object.__setattr__(self, "_target", target)
        object.__setattr__(self, "_role", role)
        LOADED[role] = target     # lets a resumed process find the collaborators of an unpickled mediator
        PROXIES[role] = self

    def __getstate__(self):
        return (self._target, self._role)

    def __setstate__(self, state):
        object.__setattr__(self, "_target", state[0])
        object.__setattr__(self, "_role", state[1])

    def __reduce__(self):
        return (Proxy, (self._target, self._role))

    def __getattr__(self, name):
        if name.startswith("__") and name.endswith("__"):
            raise AttributeError(name)
        target = object.__getattribute__(self, "_target")
        role = object.__getattribute__(self, "_role")
        hook = _ROLE_HOOKS[role].get(name)
        if hook is None:
            return getattr(target, name)
        return functools.partial(hook, target)

    def __setattr__(self, name, value):
        setattr(object.__getattribute__(self, "_target"), name, value)


def unproxy(obj):
    return object.__getattribute__(obj, "_target") if isinstance(obj, Proxy) else obj


def _first(args, kwargs, name, default=None):
    if args:
        return args[0]
    return kwargs.get(name, default)


def _sh_extract(target, *args, **kwargs):
    branch = target.extract_from_global_state(*args, **kwargs)
    for h in HUB.h_on_extract:
        h(target, _first(args, kwargs, "identifier"), branch)
    return branch


def _sh_extract_active(target, *args, **kwargs):
    result = target.extract_active_global_state(*args, **kwargs)
    for h in HUB.h_on_extract_active:
        h(target, result)
    return result


def _sh_extract_global(target, *args, **kwargs):
    result = target.extract_global_state(*args, **kwargs)
    for h in HUB.h_on_extract_global:
        h(target, result)
    return result


def _sh_insert(target, *args, **kwargs):
    out_state = _first(args, kwargs, "extracted_global_state")
    for h in HUB.h_on_insert_begin:
        h(target, out_state)
    target.insert_into_global_state(*args, **kwargs)
    for h in HUB.h_on_insert_end:
        h(target, out_state)


def _sh_initialize(target, *args, **kwargs):
    result = target.initialize(*args, **kwargs)
    for h in HUB.h_on_initialize_state:
        h(target, _first(args, kwargs, "global_physical_state"))
    return result


def _sc_push(target, *args, **kwargs):
    target.push_event(*args, **kwargs)
    time = _first(args, kwargs, "time")
    event_handler = args[1] if len(args) > 1 else kwargs.get("event_handler")
    for h in HUB.h_on_push:
        h(target, time, event_handler)


def _sc_trash(target, *args, **kwargs):
    target.trash_event(*args, **kwargs)
    for h in HUB.h_on_trash:
        h(target, _first(args, kwargs, "event_handler"))


def _sc_get(target, *args, **kwargs):
    try:
        event_handler = target.get_succeeding_event(*args, **kwargs)
    except Exception as exc:
        for h in HUB.h_on_get_failed:
            h(target, exc)
        raise
    for h in HUB.h_on_get:
        h(target, event_handler)
    return event_handler


def _ac_to_run(target, *args, **kwargs):
    result = target.get_event_handlers_to_run(*args, **kwargs)
    active_state = _first(args, kwargs, "extracted_active_global_state")
    preceding = args[1] if len(args) > 1 else kwargs.get("preceding_event_handler")
    for h in HUB.h_on_to_run:
        h(target, active_state, preceding, result)
    return result


def _ac_trashable(target, *args, **kwargs):
    result = target.get_trashable_events(*args, **kwargs)
    for h in HUB.h_on_trashable:
        h(target, _first(args, kwargs, "preceding_event_handler"), result)
    return result


def _ac_info(target, *args, **kwargs):
    result = target.get_info_internal_state(*args, **kwargs)
    event_handler = _first(args, kwargs, "event_handler_asking")
    identifier = args[1] if len(args) > 1 else kwargs.get("identifier_in_internal_state")
    for h in HUB.h_on_info_internal_state:
        h(target, event_handler, identifier, result)
    return result


def _io_read(target, *args, **kwargs):
    result = target.read(*args, **kwargs)
    for h in HUB.h_on_read:
        h(target, result)
    return result


def _io_write(target, output_handler, *args, **kwargs):
    for h in HUB.h_on_write:
        h(target, output_handler, args)
    result = target.write(output_handler, *args, **kwargs)
    for h in HUB.h_on_write_end:
        h(target, output_handler, args)
    return result


def _io_post_run(target, *args, **kwargs):
    result = target.post_run(*args, **kwargs)
    for h in HUB.h_on_post_run:
        h(target)
    return result


_ROLE_HOOKS = {
    "state_handler": {
        "extract_from_global_state": _sh_extract,
        "extract_active_global_state": _sh_extract_active,
        "extract_global_state": _sh_extract_global,
        "insert_into_global_state": _sh_insert,
        "initialize": _sh_initialize,
    },
    "scheduler": {
        "push_event": _sc_push,
        "trash_event": _sc_trash,
        "get_succeeding_event": _sc_get,
    },
    "activator": {
        "get_event_handlers_to_run": _ac_to_run,
        "get_trashable_events": _ac_trashable,
        "get_info_internal_state": _ac_info,
    },
    "input_output_handler": {
        "read": _io_read,
        "write": _io_write,
        "post_run": _io_post_run,
    },
}


# ---------------------------------------------------------------------------------------------------------------------
# The PRNG facade
# ---------------------------------------------------------------------------------------------------------------------

class RandomFacade(object):
    """Module-like object installed as ``random`` in every ``jellyfysh.*`` module.

    ``stream`` is the ``random.Random`` instance of the current simulated process.  ``override`` (if set) is called with
    ``(kind, args, site, u)`` where ``u`` is the uniform variate in [0, 1) just taken from the stream (``None`` for
    integer draws) and may return a replacement ``u`` (or a replacement integer); the stream is always advanced exactly
    as without an override, so forcing a draw never shifts the rest of the stream.
    """

    def __init__(self):
        self.stream = _real_random.Random(0)
        self.override = None
        self.count = 0
        # names some code may look up on the module
        self.Random = _real_random.Random

    # -- state ---------------------------------------------------------------------------------------------------
    def seed(self, value):
        self.stream.seed(value)

    def getstate(self):
        return self.stream.getstate()

    def setstate(self, state):
        self.stream.setstate(state)

    # -- draws ---------------------------------------------------------------------------------------------------
    def _u(self, kind, args, depth):
        self.count += 1
        u = self.stream.random()
        if self.override is not None or HUB.h_on_draw:
            code = sys._getframe(depth).f_code
            site = getattr(code, "co_qualname", code.co_name)
            if self.override is not None:
                forced = self.override(kind, args, site, u)
                if forced is not None:
                    u = forced
            return u, site
        return u, None

    def random(self):
        u, site = self._u("random", (), 2)
        for h in HUB.h_on_draw:
            h("random", (), site, u, u)
        return u

    def uniform(self, a, b):
        u, site = self._u("uniform", (a, b), 2)
        value = a + (b - a) * u
        for h in HUB.h_on_draw:
            h("uniform", (a, b), site, u, value)
        return value

    def expovariate(self, lambd):
        u, site = self._u("expovariate", (lambd,), 2)
        value = -math.log(1.0 - u) / lambd
        for h in HUB.h_on_draw:
            h("expovariate", (lambd,), site, u, value)
        return value

    def _below(self, n, kind, args, depth):
        self.count += 1
        k = self.stream._randbelow(n)
        site = None
        if self.override is not None or HUB.h_on_draw:
            code = sys._getframe(depth).f_code
            site = getattr(code, "co_qualname", code.co_name)
            if self.override is not None:
                forced = self.override(kind, args, site, k)
                if forced is not None:
                    k = forced
        return k, site

    def randint(self, a, b):
        k, site = self._below(b - a + 1, "randint", (a, b), 2)
        value = a + k
        for h in HUB.h_on_draw:
            h("randint", (a, b), site, k, value)
        return value

    def _other(self, name, *args, **kwargs):
        """Any other function of the random module: served by the same stream, reported as one draw."""
        self.count += 1
        value = getattr(self.stream, name)(*args, **kwargs)
        for h in HUB.h_on_draw:
            h(name, args, None, None, value)
        return value

    def __getattr__(self, name):
        if name.startswith("_") or not hasattr(_real_random.Random, name):
            raise AttributeError(name)
        import functools
        return functools.partial(self._other, name)

    def choice(self, seq):
        if not len(seq):
            raise IndexError("Cannot choose from an empty sequence")
        k, site = self._below(len(seq), "choice", (len(seq),), 2)
        for h in HUB.h_on_draw:
            h("choice", (len(seq),), site, k, k)
        return seq[k]


FACADE = RandomFacade()
_bypass = {"n": 0}


def _install_random_facade():
    """Replace the names ``random`` / ``randint`` in all jellyfysh modules; add a tripwire on the global generator."""
    patched = []
    for module in boot.jf_modules():
        d = module.__dict__
        if d.get("random") is _real_random:
            d["random"] = FACADE
            patched.append(module.__name__ + ".random")
        if d.get("randint") is _real_random.randint:
            d["randint"] = FACADE.randint
            patched.append(module.__name__ + ".randint")
        for name in ("uniform", "expovariate", "choice"):
            if d.get(name) is getattr(_real_random, name):
                d[name] = getattr(FACADE, name)
                patched.append(module.__name__ + "." + name)
    # tripwire: any draw from the hidden global instance means a call site escaped the facade
    inst = _real_random._inst
    orig_random, orig_getrandbits = inst.random, inst.getrandbits

    def tripped_random():
        _bypass["n"] += 1
        return orig_random()

    def tripped_getrandbits(k):
        _bypass["n"] += 1
        return orig_getrandbits(k)

    inst.random = tripped_random
    inst.getrandbits = tripped_getrandbits
    return patched


def bypass_count():
    return _bypass["n"]


# ---------------------------------------------------------------------------------------------------------------------
# Class-level wrappers
# ---------------------------------------------------------------------------------------------------------------------

def _depth():
    tls = HUB.tls
    try:
        return tls.depth
    except AttributeError:
        tls.depth = {}
        return tls.depth


def _wrap_event_handler_method(cls, name):
    original = cls.__dict__[name]
    begin_name, end_name = "h_on_%s_begin" % name, "h_on_%s_end" % name

    @functools.wraps(original)
    def wrapper(self, *args, **kwargs):
        depth = _depth()
        key = (id(self), name)
        if depth.get(key):
            return original(self, *args, **kwargs)
        depth[key] = 1
        try:
            for h in getattr(HUB, begin_name):
                h(self, args)
            result = original(self, *args, **kwargs)
            for h in getattr(HUB, end_name):
                h(self, args, result)
            return result
        finally:
            del depth[key]

    wrapper._verif_wrapped = True
    setattr(cls, name, wrapper)


def _all_subclasses(cls):
    seen, stack = [], [cls]
    while stack:
        c = stack.pop()
        for s in c.__subclasses__():
            if s not in seen:
                seen.append(s)
                stack.append(s)
    return seen


def _wrap_public_method(cls, name, event, tag):
    """Wrap ``cls.name`` (defined in ``cls.__dict__``) so that the outermost call is reported to ``event``."""
    original = cls.__dict__[name]
    if getattr(original, "_verif_wrapped", False):
        return
    is_static = isinstance(original, staticmethod)
    if is_static or isinstance(original, (classmethod, property)):
        return
    attr = "h_" + event

    @functools.wraps(original)
    def wrapper(self, *args, **kwargs):
        handlers = getattr(HUB, attr)
        if not handlers:
            return original(self, *args, **kwargs)
        depth = _depth()
        key = (id(self), tag, name)
        if depth.get(key):
            return original(self, *args, **kwargs)
        depth[key] = 1
        # arguments as they were before the call (some methods change a separation list in place)
        before = tuple(list(a) if type(a) is list else a for a in args)
        before_kwargs = {k: (list(v) if type(v) is list else v) for k, v in kwargs.items()} if kwargs else kwargs
        try:
            result = original(self, *args, **kwargs)
        except BaseException as exc:
            for h in handlers:
                h(self, name, before, before_kwargs, None, exc)
            raise
        finally:
            del depth[key]
        for h in handlers:
            h(self, name, before, before_kwargs, result, None)
        return result

    wrapper._verif_wrapped = True
    setattr(cls, name, wrapper)


def _wrap_constructor(cls, event, pre=None):
    original = cls.__dict__.get("__init__")
    if original is None or getattr(original, "_verif_wrapped", False):
        return
    attr = "h_" + event

    @functools.wraps(original)
    def wrapper(self, *args, **kwargs):
        handlers = getattr(HUB, attr)
        info = pre(*args, **kwargs) if (pre is not None and handlers) else None
        original(self, *args, **kwargs)
        for h in handlers:
            h(self, args, kwargs, info)

    wrapper._verif_wrapped = True
    cls.__init__ = wrapper


def _wrap_mediator_constructor(cls):
    original = cls.__dict__.get("__init__")
    if original is None or getattr(original, "_verif_wrapped", False):
        return

    @functools.wraps(original)
    def wrapper(self, input_output_handler, state_handler, scheduler, activator, **kwargs):
        io = Proxy(unproxy(input_output_handler), "input_output_handler")
        sh = Proxy(unproxy(state_handler), "state_handler")
        sc = Proxy(unproxy(scheduler), "scheduler")
        ac = Proxy(unproxy(activator), "activator")
        original(self, io, sh, sc, ac, **kwargs)
        for h in HUB.h_on_mediator:
            h(self, unproxy(io), unproxy(sh), unproxy(sc), unproxy(ac))

    wrapper._verif_wrapped = True
    cls.__init__ = wrapper


_installed = {"done": False, "report": None}


def install():
    """Install every class-level seam once per process.  Returns a report of what was patched."""
    if _installed["done"]:
        return _installed["report"]
    import jellyfysh.event_handler.event_handler as eh_module
    import jellyfysh.mediator.single_process_mediator as spm
    import jellyfysh.mediator.multi_process_mediator.multi_process_mediator as mpm
    import jellyfysh.activator.tag_activator as ta
    import jellyfysh.activator.internal_state.internal_state as internal_state_module
    import jellyfysh.potential.potential as potential_module
    import jellyfysh.lifting.lifting as lifting_module
    import jellyfysh.event_handler.walker as walker_module
    import jellyfysh.base.exceptions as exceptions_module

    # harness input handler, reachable by the factory as jellyfysh.input_output_handler.input_handler.lattice_...
    from . import harness_input
    sys.modules["jellyfysh.input_output_handler.input_handler.lattice_input_handler"] = harness_input

    report = {"random": _install_random_facade(), "event_handler_methods": [], "potential_methods": [],
              "lifting_methods": [], "warning_sites": []}

    classes = [eh_module.EventHandler] + _all_subclasses(eh_module.EventHandler)
    for cls in classes:
        for name in ("send_event_time", "send_out_state"):
            if name in cls.__dict__ and not getattr(cls.__dict__[name], "__isabstractmethod__", False):
                _wrap_event_handler_method(cls, name)
                report["event_handler_methods"].append(cls.__name__ + "." + name)

    _wrap_mediator_constructor(spm.SingleProcessMediator)
    _wrap_mediator_constructor(mpm.MultiProcessMediator)
    _wrap_constructor(ta.TagActivator, "on_activator_built")
    for cls in _all_subclasses(internal_state_module.InternalState):
        _wrap_constructor(cls, "on_internal_state_built")

    for cls in [potential_module.Potential] + _all_subclasses(potential_module.Potential):
        for name in ("derivative", "displacement"):
            if name in cls.__dict__ and not getattr(cls.__dict__[name], "__isabstractmethod__", False):
                _wrap_public_method(cls, name, "on_potential_call", "potential")
                report["potential_methods"].append(cls.__name__ + "." + name)

    for cls in [lifting_module.Lifting] + _all_subclasses(lifting_module.Lifting):
        for name in ("reset", "insert", "get_active_identifier"):
            if name in cls.__dict__ and not getattr(cls.__dict__[name], "__isabstractmethod__", False):
                _wrap_public_method(cls, name, "on_lifting_call", "lifting")
                report["lifting_methods"].append(cls.__name__ + "." + name)

    _wrap_constructor(walker_module.Walker, "on_walker_built",
                      pre=lambda walker_items: [(w.item, w.rate) for w in walker_items])
    if "sample_cell" in walker_module.Walker.__dict__:
        _wrap_public_method(walker_module.Walker, "sample_cell", "on_walker_sample", "walker")

    # bounding_potential_warning: replace the name in every module that imported it
    original_warning = exceptions_module.bounding_potential_warning

    @functools.wraps(original_warning)
    def warning_wrapper(event_handler_name, bounding_derivative, real_derivative):
        for h in HUB.h_on_bounding_warning:
            h(event_handler_name, bounding_derivative, real_derivative)
        return original_warning(event_handler_name, bounding_derivative, real_derivative)

    for module in boot.jf_modules():
        if module.__dict__.get("bounding_potential_warning") is original_warning:
            module.__dict__["bounding_potential_warning"] = warning_wrapper
            report["warning_sites"].append(module.__name__)

    _installed["done"] = True
    _installed["report"] = report
    return report


# ---------------------------------------------------------------------------------------------------------------------
# The simulated clock (base.time.Time): installed only by the checks that observe it (every Time operation is hot)
# ---------------------------------------------------------------------------------------------------------------------

_time_seam = {"done": False}


def install_time_seam():
    if _time_seam["done"]:
        return
    from jellyfysh.base.time import Time
    for name in ("__add__", "__sub__", "__lt__", "__le__", "__gt__", "__ge__", "__eq__"):
        original = Time.__dict__[name]

        def make(original, name):
            @functools.wraps(original)
            def wrapper(self, other):
                result = original(self, other)
                for h in HUB.h_on_time_op:
                    h(name, self, other, result)
                return result
            return wrapper
        setattr(Time, name, make(original, name))
    original_from_float = Time.__dict__["from_float"].__func__

    def from_float(time):
        result = original_from_float(time)
        for h in HUB.h_on_time_op:
            h("from_float", None, time, result)
        return result
    Time.from_float = staticmethod(from_float)
    _time_seam["done"] = True


def pickle_round_trip(role, keep_identity_of):
    """Fault: the collaborator behind a proxy is replaced by its own dill round trip (what a dump does to it), with
    the objects in ``keep_identity_of`` (the event handlers) pickled by reference so that the rest of the running
    system still refers to the same objects.  Returns the new collaborator."""
    import io
    import dill
    proxy = PROXIES[role]
    target = object.__getattribute__(proxy, "_target")
    index = {id(obj): i for i, obj in enumerate(keep_identity_of)}
    buffer = io.BytesIO()

    class Pickler(dill.Pickler):
        def persistent_id(self, obj):
            i = index.get(id(obj))
            return ("kept", i) if i is not None else None

    class Unpickler(dill.Unpickler):
        def persistent_load(self, pid):
            return keep_identity_of[pid[1]]

    Pickler(buffer).dump(target)
    buffer.seek(0)
    fresh = Unpickler(buffer).load()
    object.__setattr__(proxy, "_target", fresh)
    LOADED[role] = fresh
    return fresh


def restore_in_place(objects, keep_types=()):
    """Fault: what a dump / resume does to the *contents* of the given objects (the event handlers): their instance
    dictionaries go through one dill round trip (sharing between them is preserved, ``__getstate__`` / ``__setstate__``
    of everything inside - potentials, in-state nodes, times, liftings, walkers - are exercised) and are put back into
    the same objects, so that the rest of the running system still refers to them.  Objects of ``keep_types`` (the
    cells the activator's internal state shares with the handlers) and the objects themselves are pickled by
    reference."""
    import io
    import dill
    kept = []
    index = {}
    top = set(id(o) for o in objects)

    class Pickler(dill.Pickler):
        def persistent_id(self, obj):
            if id(obj) in top or (keep_types and isinstance(obj, keep_types)):
                i = index.get(id(obj))
                if i is None:
                    i = index[id(obj)] = len(kept)
                    kept.append(obj)
                return ("kept", i)
            return None

    class Unpickler(dill.Unpickler):
        def persistent_load(self, pid):
            return kept[pid[1]]

    buffer = io.BytesIO()
    Pickler(buffer).dump([o.__dict__ for o in objects])
    buffer.seek(0)
    states = Unpickler(buffer).load()
    for obj, state in zip(objects, states):
        obj.__dict__.clear()
        obj.__dict__.update(state)
    return len(objects)
