"""Scenarios: JSON objects from which an in-memory ConfigParser is produced (DESIGN.md section 2.2).

A scenario is ``{"base": <shipped .ini relative to config_files | "harness:<name>">, "set": {section: {option: value}},
"drop": [section, ...], "seed": int, "end_time": float, "max_events": int, ...}``.  Everything is string valued, exactly
what a user could write into an .ini file.
"""
import configparser
import copy
import os

SHIPPED = [
    "2018_JCP_149_064113/coulomb_atoms/power_bounded.ini",
    "2018_JCP_149_064113/coulomb_atoms/cell_bounded.ini",
    "2018_JCP_149_064113/coulomb_atoms/cell_veto.ini",
    "2018_JCP_149_064113/dipoles/atom_factors.ini",
    "2018_JCP_149_064113/dipoles/cell_bounded.ini",
    "2018_JCP_149_064113/dipoles/cell_veto.ini",
    "2018_JCP_149_064113/dipoles/dipole_factors_inside_first.ini",
    "2018_JCP_149_064113/dipoles/dipole_factors_outside_first.ini",
    "2018_JCP_149_064113/dipoles/dipole_factors_ratio.ini",
    "2018_JCP_149_064113/dipoles/dipole_motion.ini",
    "2018_JCP_149_064113/water/coulomb_cell_veto_lj_cell_veto.ini",
    "2018_JCP_149_064113/water/coulomb_cell_veto_lj_inverted.ini",
    "2018_JCP_149_064113/water/coulomb_power_bounded_lj_cell_bounded.ini",
    "2018_JCP_149_064113/water/coulomb_power_bounded_lj_inverted.ini",
    "2018_JCP_149_064113/water/single_molecule.ini",
    "hard_disk_dipoles/single_hard_disk_dipole.ini",
]
# hard_disk_dipoles.ini / hard_disk_dipoles_cells.ini read a PDB file through MDAnalysis, which is not installed; the
# harness variants below replace the input handler by the random dipole creator (see harness_bases.py).


def camel(name):
    return "".join(part.capitalize() for part in name.split("_"))


def load_ini(package_dir, relative):
    parser = configparser.ConfigParser()
    path = os.path.join(package_dir, "config_files", relative)
    if not parser.read(path):
        raise FileNotFoundError(path)
    return {section: dict(parser[section]) for section in parser.sections()}


def base_sections(package_dir, base):
    if base.startswith("harness:"):
        from . import harness_bases
        return harness_bases.build(package_dir, base[len("harness:"):])
    return load_ini(package_dir, base)


def resolve(scenario, package_dir):
    """Return the section dictionary of a scenario with ``set`` / ``drop`` applied (paths still relative)."""
    sections = copy.deepcopy(base_sections(package_dir, scenario["base"]))
    for section in scenario.get("drop", ()):
        sections.pop(section, None)
    for section, options in scenario.get("set", {}).items():
        target = sections.setdefault(section, {})
        for option, value in options.items():
            if value is None:
                target.pop(option, None)
            else:
                target[option] = str(value)
    if "end_time" in scenario:
        sections.setdefault("FinalTimeEndOfRunEventHandler", {})["end_of_run_time"] = repr(float(scenario["end_time"]))
    return sections


def to_config(sections, package_dir, out_dir):
    """Produce the ConfigParser, with file names made absolute (factor/pdb files into the scratch copy, outputs into
    the private directory of this run)."""
    parser = configparser.ConfigParser()
    for section, options in sections.items():
        parser.add_section(section)
        for option, value in options.items():
            if option == "filename":
                if value.startswith("config_files/"):
                    value = os.path.join(package_dir, value)
                elif not os.path.isabs(value):
                    value = os.path.join(out_dir, os.path.basename(value))
            parser.set(section, option, value)
    return parser


def tagger_sections(sections):
    """Map tag -> (section name, tagger class snake name) from the TagActivator's tagger list."""
    import re
    result = {}
    raw = sections["TagActivator"]["taggers"].replace("\n", "")
    for item in re.split(r",\s*", raw.strip()):
        item = item.strip()
        if not item:
            continue
        m = re.match(r"(\w+)\s*(?:\((\w+)\))?", item)
        alias, cls = m.group(1), m.group(2) or m.group(1)
        result[alias] = (camel(alias), cls)
    return result


def split_list(value):
    import re
    return [v.strip() for v in re.split(r",\s*", value.replace("\n", "").strip()) if v.strip()]
