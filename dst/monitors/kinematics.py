"""C07: shadow kinematics evaluated at every commit (DESIGN.md section 4, C07)."""
import math
from fractions import Fraction

from ..seams import Monitor
from ..runsim import walk_cnodes

POS_TOL = 1e-9   # times the box length (DESIGN.md section 9)
VEL_TOL = 1e-9   # relative


def box_lengths():
    import jellyfysh.setting.hypercuboid_setting as hc
    return tuple(hc.system_lengths)


def periodic_diff(a, b, length):
    d = (a - b) % length
    return min(d, length - d)


def advance(rec, time_qr, lengths):
    """Position of a unit record (pos, vel, ts) at time (q, r), not wrapped."""
    pos, vel, ts = rec
    if vel is None:
        return pos
    dt = (time_qr[0] - ts[0]) + (time_qr[1] - ts[1])
    return tuple(p + v * dt for p, v in zip(pos, vel))


class Kinematics(Monitor):
    name = "C07"

    def __init__(self, ctx):
        self.ctx = ctx
        self.prev_time = None
        self.speed = None
        self.started = False
        self.max_dev = 0.0
        self.checked_units = 0

    def on_insert_begin(self, state_handler, out_state):
        ctx = self.ctx
        now = ctx.now
        if now is None:
            ctx.violation("C07", "event_without_candidate_time",
                          {"handler": ctx.current_handler.__class__.__name__})
        qr = (now.quotient, now.remainder)
        # exact value of quotient + remainder (a time need not be normalised to be compared correctly here)
        value = (math.inf if math.isinf(now.quotient) else Fraction(now.quotient) + Fraction(now.remainder))
        if self.prev_time is not None and value < self.prev_value:
            ctx.violation("C07", "event_time_decreased", {"previous": self.prev_time, "now": qr,
                                                           "handler": ctx.current_handler.__class__.__name__})
        self.prev_time = qr
        self.prev_value = value

    def on_insert_end(self, state_handler, out_state):
        ctx = self.ctx
        lengths = box_lengths()
        now = (ctx.now.quotient, ctx.now.remainder)
        old_G, new_G = ctx.G_prev, ctx.G
        touched = set()
        kind = ctx.kind(ctx.current_handler)
        for rec in ctx.out_records:
            ident = rec[0]
            touched.add(ident)
            old = old_G.get(ident)
            if old is None:
                ctx.violation("C07", "unknown_identifier_committed", {"identifier": ident})
            new = rec[1:]
            if new_G.get(ident) != new:
                ctx.violation("C07", "committed_values_not_read_back",
                              {"identifier": ident, "committed": new, "read": new_G.get(ident)})
            old_at = advance(old, now, lengths)
            new_at = advance(new, now, lengths)
            for d, length in enumerate(lengths):
                dev = periodic_diff(old_at[d], new_at[d], length)
                if dev > self.max_dev:
                    self.max_dev = dev
                if dev > POS_TOL * length:
                    ctx.violation("C07", "position_discontinuity",
                                  {"identifier": ident, "direction": d, "deviation": dev, "old": old, "new": new,
                                   "event_time": now, "handler": ctx.current_handler.__class__.__name__})
            if old[1] is None and new[0] != old[0]:
                # a unit at rest keeps its position exactly (also when it starts to move)
                ctx.violation("C07", "resting_unit_moved", {"identifier": ident, "old": old, "new": new,
                                                            "handler": ctx.current_handler.__class__.__name__})
            if new[1] is not None and new[2] is not None and new[2] > now and kind != "start_of_run":
                ctx.violation("C07", "time_stamp_in_future", {"identifier": ident, "new": new, "event_time": now})
            self.checked_units += 1
        # units that are not part of the out-state are untouched
        if len(new_G) != len(old_G):
            ctx.violation("C07", "unit_set_changed", {"before": len(old_G), "after": len(new_G)})
        for ident, old in old_G.items():
            if ident not in touched and new_G.get(ident) != old:
                ctx.violation("C07", "unit_outside_out_state_changed",
                              {"identifier": ident, "old": old, "new": new_G.get(ident),
                               "handler": ctx.current_handler.__class__.__name__})
        self._check_chain(new_G, lengths, kind)

    def _check_chain(self, G, lengths, kind):
        ctx = self.ctx
        if kind == "start_of_run":
            self.started = True
        leaves = [ident for ident, kids in ctx.children.items() if not kids]
        moving = [ident for ident in leaves if G[ident][1] is not None]
        for ident, (pos, vel, ts) in G.items():
            for d, length in enumerate(lengths):
                if not (0.0 <= pos[d] < length):
                    ctx.violation("C07", "position_outside_box", {"identifier": ident, "position": pos})
            if (vel is None) != (ts is None):
                ctx.violation("C07", "velocity_time_stamp_mismatch", {"identifier": ident, "velocity": vel, "ts": ts})
        if not self.started:
            return
        if not moving:
            if kind != "end_of_run":
                ctx.violation("C07", "no_moving_unit", {"handler": ctx.current_handler.__class__.__name__})
            return
        v0 = G[moving[0]][1]
        speed = math.sqrt(sum(c * c for c in v0))
        if self.speed is None:
            self.speed = speed
        if abs(speed - self.speed) > VEL_TOL * self.speed:
            ctx.violation("C07", "speed_changed", {"speed": speed, "initial": self.speed,
                                                   "handler": ctx.current_handler.__class__.__name__})
        for ident in moving[1:]:
            v = G[ident][1]
            if any(abs(a - b) > VEL_TOL * self.speed for a, b in zip(v, v0)):
                ctx.violation("C07", "moving_units_differ_in_velocity", {"a": moving[0], "va": v0, "b": ident,
                                                                         "vb": v})
        if len(moving) > 1:
            roots = set(ident[:1] for ident in moving)
            if len(roots) != 1:
                ctx.violation("C07", "more_than_one_chain", {"moving": moving})
            root = next(iter(roots))
            members = [ident for ident in leaves if ident[:1] == root]
            if sorted(members) != sorted(moving):
                ctx.violation("C07", "partial_composite_object_moving", {"moving": moving, "members": members})
            ctx.probes["whole_object_moving"] += 1
        # identities, tree shape and charges never change: the tree shape is what the state handler reports
        if set(G) != set(ctx.initial_G):
            ctx.violation("C07", "identifiers_changed", {})
        for cnode in walk_cnodes(ctx.G_cnodes):
            ident = tuple(cnode.value.identifier)
            if cnode.value.charge != ctx.charges.get(ident):
                ctx.violation("C07", "charge_changed", {"identifier": ident, "charge": cnode.value.charge,
                                                        "initial": ctx.charges.get(ident)})
            if [tuple(k.value.identifier) for k in cnode.children] != ctx.children.get(ident):
                ctx.violation("C07", "tree_shape_changed", {"identifier": ident})

    def at_end(self, status):
        self.ctx.notes["c07_max_deviation"] = self.max_dev
        self.ctx.notes["c07_units_checked"] = self.checked_units
