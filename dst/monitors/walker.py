"""C18: cell-veto proposals pick target cells exactly in proportion to their bound rates (DESIGN.md section 4, C18)."""
import math

from ..seams import Monitor, FACADE
from ..runsim import walk_cnodes

_BUSY = [0]


def explore_walker(walker, items, probes):
    """Exact selection probability of every item: every table row is forced in turn (the PRNG seam sees the row count
    of the ``choice``), the coin threshold of each row is located by bisection on the forced uniform variate."""
    state = {"row": 0, "u": 0.5, "rows": None}
    saved = FACADE.override

    def forced(kind, args, site, u):
        if kind == "choice":
            state["rows"] = args[0]
            return state["row"]
        if kind == "uniform":
            return state["u"]
        return None

    FACADE.override = forced
    _BUSY[0] += 1
    try:
        state["row"], state["u"] = 0, 0.5
        walker.sample_cell()
        n_rows = state["rows"]
        probability = {}
        evaluations = 0
        for row in range(n_rows):
            state["row"] = row
            lo, hi = 1e-12, 1.0 - 1e-12
            state["u"] = lo
            first = walker.sample_cell()
            state["u"] = hi
            last = walker.sample_cell()
            evaluations += 2
            if first is last:
                probability[id(first)] = probability.get(id(first), 0.0) + 1.0 / n_rows
                probes["c18_rows_with_one_outcome"] = probes.get("c18_rows_with_one_outcome", 0) + 1
                continue
            a, b = lo, hi
            for _ in range(60):
                mid = 0.5 * (a + b)
                state["u"] = mid
                got = walker.sample_cell()
                evaluations += 1
                if got is first:
                    a = mid
                elif got is last:
                    b = mid
                else:
                    return None, "row_with_three_outcomes", evaluations
            threshold = 0.5 * (a + b)
            probability[id(first)] = probability.get(id(first), 0.0) + threshold / n_rows
            probability[id(last)] = probability.get(id(last), 0.0) + (1.0 - threshold) / n_rows
        return probability, None, evaluations
    finally:
        _BUSY[0] -= 1
        FACADE.override = saved


class Walker(Monitor):
    name = "C18"

    def __init__(self, ctx, max_explorations=6):
        self.ctx = ctx
        self.walkers = {}           # id(walker) -> (walker, [(item, rate)])
        self.max_explorations = max_explorations
        self.current = None
        self.sampled = None
        self.exp_draw = None
        self.confirm = None
        self.cf = {}
        self.pending_bound = {}
        self.pending_rate = {}
        self.confirm_u = None
        self.q_seen = 0.0
        self.out_handler = None
        self.draws_now = []

    def on_walker_built(self, walker, args, kwargs, info):
        self.walkers[id(walker)] = (walker, list(info))

    @staticmethod
    def _walkers_of(handler):
        for name, value in vars(handler).items():
            group = value if isinstance(value, (list, tuple)) else [value]
            for position, walker in enumerate(group):
                if type(walker).__name__ == "Walker":
                    yield (name, position), walker

    def on_handlers_restoring(self, handlers):
        self.layout = {(id(handler), where): id(walker) for handler in handlers
                       for where, walker in self._walkers_of(handler)}

    def on_handlers_restored(self, handlers):
        """The walkers inside the event handlers have been replaced by their dill round trips (the cells they point
        to are the same objects): each takes the place of the walker that was at the same position of the same
        attribute, and is explored like the originals."""
        explored = set()
        for handler in handlers:
            for where, walker in self._walkers_of(handler):
                old = self.walkers.get(self.layout.get((id(handler), where)))
                if old is None or id(walker) in self.walkers:
                    continue
                items = old[1]
                self.walkers[id(walker)] = (walker, items)
                key = tuple(round(rate, 12) for _, rate in items)
                if key not in explored and len(explored) < 2:
                    explored.add(key)
                    self._explore(walker, items, "restored_inside_its_event_handler")

    def on_mediator(self, *args):
        ctx = self.ctx
        explored = 0
        seen = set()
        for walker, items in self.walkers.values():
            key = tuple(round(rate, 12) for _, rate in items)
            if key in seen or explored >= self.max_explorations:
                continue
            seen.add(key)
            explored += 1
            self._explore(walker, items)
            # the walkers of event handlers 2..n are deep copies, the walkers of a resumed run went through dill
            import copy
            import dill
            clone = copy.deepcopy((walker, [item for item, _ in items]))
            self._explore(clone[0], [(c, rate) for c, (_, rate) in zip(clone[1], items)], "deep_copy")
            loaded = dill.loads(dill.dumps((walker, [item for item, _ in items])))
            self._explore(loaded[0], [(c, rate) for c, (_, rate) in zip(loaded[1], items)], "dill_round_trip")

        self._explore_offset_mapping()

    def _explore_offset_mapping(self):
        """Every (active cell, offset) pair of the configured grid (a seeded sample of the active cells on large
        grids): the cell the real cell system reports at that offset is the active cell plus the offset modulo the
        grid."""
        import random
        ctx = self.ctx
        rng = random.Random(ctx.scenario["seed"] ^ 0xC18)
        done = set()
        for handler, tagger in list(getattr(ctx, "handler_tagger", {}).items()):
            if ctx.kind(handler) != "cell_veto":
                continue
            cells = getattr(getattr(tagger, "internal_state", None), "cells", None)
            if cells is None or id(cells) in done or not hasattr(cells, "translate"):
                continue
            done.add(id(cells))
            every = list(cells.yield_cells())
            ids = [tuple(c.identifier) for c in every]
            per_side = [max(i[d] for i in ids) + 1 for d in range(len(ids[0]))]
            actives = every if len(every) ** 2 <= 60000 else rng.sample(every, max(1, 60000 // len(every)))
            for active in actives:
                for offset in every:
                    expected = tuple((a + o) % n for a, o, n in zip(active.identifier, offset.identifier, per_side))
                    got = cells.translate(active, offset)
                    if tuple(got.identifier) != expected:
                        ctx.violation("C18", "cell_at_offset_is_not_active_cell_plus_offset",
                                      {"active_cell": tuple(active.identifier), "offset": tuple(offset.identifier),
                                       "reported": tuple(got.identifier), "expected": expected,
                                       "cells_per_side": per_side})
            ctx.probes["c18_offset_pairs_checked"] += len(actives) * len(every)
            ctx.probes["c18_grids_checked"] += 1

    def _explore(self, walker, items, variant="original"):
        ctx = self.ctx
        total = sum(rate for _, rate in items)
        if abs(walker.total_rate - total) > 1e-12 * max(total, 1e-300):
            ctx.violation("C18", "total_rate_is_not_the_sum_of_rates", {"reported": walker.total_rate, "sum": total,
                                                                        "walker": variant})
        if total <= 0.0:
            return
        probes = {}
        try:
            probability, problem, evaluations = explore_walker(walker, items, probes)
        except IndexError as exc:
            ctx.violation("C18", "sample_cell_raised_for_a_draw_inside_the_open_interval",
                          {"error": repr(exc), "rates": [rate for _, rate in items][:12], "items": len(items)})
        for key, value in probes.items():
            ctx.probes[key] += value
        if problem is not None:
            ctx.violation("C18", problem, {})
        worst = 0.0
        for item, rate in items:
            p = probability.get(id(item), 0.0)
            expected = rate / total
            worst = max(worst, abs(p - expected))
            if rate == 0.0 and p > 0.0:
                ctx.violation("C18", "zero_rate_cell_can_be_selected", {"probability": p})
            if abs(p - expected) > 1e-12:
                ctx.violation("C18", "selection_probability_differs_from_rate_over_total",
                              {"probability": p, "expected": expected, "rate": rate, "total": total,
                               "items": len(items), "walker": variant})
        ctx.notes["c18_largest_probability_deviation"] = max(ctx.notes.get("c18_largest_probability_deviation", 0.0),
                                                             worst)
        ctx.probes["c18_walkers_explored"] += 1
        ctx.probes["c18_walkers_explored_" + variant] += 1
        ctx.probes["c18_cells_in_explored_walkers"] += len(items)
        ctx.probes["c18_zero_rate_cells"] += sum(1 for _, r in items if r == 0.0)
        ctx.probes["c18_forced_sample_cell_calls"] += evaluations

    # -- in-run bookkeeping of every cell-veto proposal --------------------------------------------------------------
    def on_send_event_time_begin(self, handler, args):
        if self.ctx.kind(handler) != "cell_veto":
            return
        self.current = handler
        self.sampled = None
        self.exp_draw = None
        self.draws_now = []
        self.in_records = args[0] if args else None

    def on_walker_sample(self, walker, name, args, kwargs, result, exc):
        if _BUSY[0] or self.current is None:
            return
        self.sampled = (walker, result)

    def on_draw(self, kind, args, site, u, value):
        if _BUSY[0]:
            return
        if getattr(self, "out_handler", None) is not None and kind == "uniform" and self.confirm is None \
                and site is not None and site.endswith(("send_out_state",
                                                         "_calculate_out_state_of_two_leaf_unit_bounding_potential")):
            self.confirm = args[1]
            self.confirm_u = u
        if self.current is None:
            return
        self.draws_now.append((kind, args))
        if kind == "expovariate" and site is not None and site.endswith("send_event_time"):
            self.exp_draw = (args[0], value)

    def on_send_event_time_end(self, handler, args, result):
        ctx = self.ctx
        if handler is not self.current:
            return
        self.current = None
        time, extra = result
        target = extra[0]
        if self.exp_draw is None:
            ctx.probes["c18_candidate_without_observed_budget"] += 1
            return
        if self.sampled is None:
            # the handler did not sample through Walker.sample_cell: the walker is recognised by the two draws of the
            # alias method (table row out of n, uniform up to the mean rate), the offset is read off the target cell
            self.sampled = self._sample_from_draws(handler, args, target)
            if self.sampled is None:
                ctx.probes["c18_candidate_without_observed_sample"] += 1
                return
            ctx.probes["c18_sample_recognised_by_its_draws"] += 1
        walker, offset = self.sampled
        if id(walker) not in self.walkers:
            ctx.probes["c18_proposal_of_an_unregistered_walker"] += 1
            return
        tagger = ctx.handler_tagger.get(handler)
        state = getattr(tagger, "internal_state", None)
        branch = args[0][0]
        leaves = [c for c in walk_cnodes([branch]) if not c.children]
        active = [c for c in leaves if c.value.velocity is not None]
        if len(active) != 1 or state is None:
            return
        active = active[0]
        unit = active.value
        # the unit that lives in the cell system
        node = active
        while len(node.value.identifier) > state.cell_level:
            node = node.parent
        cells = state.cells
        active_cell = cells.position_to_cell(node.value.position)
        ids = [c.identifier for c in cells.yield_cells()]
        per_side = [max(i[d] for i in ids) + 1 for d in range(len(ids[0]))]
        expected = tuple((a + o) % n for a, o, n in zip(active_cell.identifier, offset.identifier, per_side))
        # note: the in-state has been time-sliced by the handler; the active cell is taken at the candidate request,
        # which the handler computes before time-slicing -- use the global state instead
        rec = ctx.G.get(tuple(node.value.identifier))
        request_cell = cells.position_to_cell(list(rec[0]))
        expected = tuple((a + o) % n for a, o, n in zip(request_cell.identifier, offset.identifier, per_side))
        if tuple(target.identifier) != expected:
            ctx.violation("C18", "target_cell_is_not_active_cell_plus_sampled_offset",
                          {"active_cell": request_cell.identifier, "offset": offset.identifier,
                           "target": target.identifier, "expected": expected})
        speed = math.sqrt(sum(v * v for v in unit.velocity))
        stamp = rec_time = None
        leaf_rec = ctx.G.get(tuple(unit.identifier))
        ts = leaf_rec[2]
        dt = (time.quotient - ts[0]) + (time.remainder - ts[1])
        beta, budget = self.exp_draw
        items = dict((id(item), rate) for item, rate in self.walkers[id(walker)][1])
        rate = items.get(id(offset))
        if rate is None or not rate > 0.0:
            ctx.violation("C18", "sampled_cell_has_no_positive_rate", {"offset": offset.identifier, "rate": rate})
        if dt > 0.0 and budget > 0.0:
            factor = budget / (dt * speed * walker.total_rate)
            key = (type(handler), repr(sorted((unit.charge or {}).items())), id(walker) % 2 ** 32)
            known = self.cf.get((type(handler), repr(sorted((unit.charge or {}).items()))))
            if known is None:
                self.cf[(type(handler), repr(sorted((unit.charge or {}).items())))] = factor
            elif abs(factor - known) > 1e-6 * known:
                ctx.violation("C18", "proposal_rate_is_not_total_rate_times_speed",
                              {"implied_charge_factor": factor, "earlier": known, "budget": budget, "dt": dt,
                               "total_rate": walker.total_rate})
            self.pending_bound[handler] = rate * factor
            # the rate (per unit of time) at which candidates for this very cell are proposed: the thinning is exact
            # if and only if the confirmation probability is true rate (per unit of time) / this rate
            self.pending_rate[handler] = (rate * factor * speed, tuple(unit.identifier))
        ctx.probes["c18_proposals_checked"] += 1
        if any(a != e for a, e in zip([a + o for a, o in zip(request_cell.identifier, offset.identifier)], expected)):
            ctx.probes["c18_target_through_periodic_boundary"] += 1

    def _sample_from_draws(self, handler, args, target):
        ctx = self.ctx
        rows = [a[0] for k, a in self.draws_now if k == "choice"]
        means = [a[1] for k, a in self.draws_now if k == "uniform"]
        tagger = ctx.handler_tagger.get(handler)
        state = getattr(tagger, "internal_state", None)
        if len(rows) != 1 or len(means) != 1 or state is None:
            return None
        total = rows[0] * means[0]
        leaves = [c for c in walk_cnodes([args[0][0]]) if not c.children and c.value.velocity is not None]
        if len(leaves) != 1:
            return None
        node = leaves[0]
        while len(node.value.identifier) > state.cell_level:
            node = node.parent
        rec = ctx.G.get(tuple(node.value.identifier))
        cells = state.cells
        request_cell = cells.position_to_cell(list(rec[0]))
        ids = [c.identifier for c in cells.yield_cells()]
        per_side = [max(i[d] for i in ids) + 1 for d in range(len(ids[0]))]
        offset_id = tuple((t - a) % n for t, a, n in zip(target.identifier, request_cell.identifier, per_side))
        for walker, items in self.walkers.values():
            if len(items) and abs(walker.total_rate - total) <= 1e-9 * total:
                for item, rate in items:
                    if tuple(item.identifier) == offset_id:
                        return (walker, item)
        return None

    def on_send_out_state_begin(self, handler, args):
        self.out_handler = handler if self.ctx.kind(handler) == "cell_veto" else None
        self.confirm = None
        self.confirm_u = None
        self.q_seen = 0.0

    def on_potential_call(self, potential, name, args, kwargs, result, exc):
        # the true event rate as the handler computes it: the derivatives it asks for before the confirmation draw
        if _BUSY[0] or self.out_handler is None or self.confirm is not None or name != "derivative" or exc is not None:
            return
        self.q_seen += result

    def on_send_out_state_end(self, handler, args, result):
        ctx = self.ctx
        if handler is not getattr(self, "out_handler", None):
            return
        self.out_handler = None
        expected = self.pending_bound.pop(handler, None)
        proposal = self.pending_rate.pop(handler, None)
        if proposal is not None and result is not None and args and args[0] is not None:
            # decision-based: whatever units the handler compares in, the event must be confirmed exactly when the
            # unit variate of its confirmation draw lies below true rate / rate of the proposals for the sampled cell
            rate_of_cell, active_identifier = proposal
            after = [c.value for c in walk_cnodes(result) if tuple(c.value.identifier) == active_identifier]
            if len(after) == 1 and rate_of_cell > 0.0:
                accepted = after[0].velocity is None
                probability = max(0.0, self.q_seen) / rate_of_cell
                u = self.confirm_u
                if u is None:
                    if accepted:
                        ctx.violation("C18", "cell_veto_event_confirmed_without_a_draw", {})
                elif abs(u - probability) > 1e-9:
                    if accepted != (u < probability):
                        ctx.violation("C18", "confirmation_probability_is_not_true_rate_over_rate_of_the_sampled_cell",
                                      {"unit_variate_of_the_confirmation_draw": u, "true_rate_per_time": self.q_seen,
                                       "proposal_rate_of_the_sampled_cell_per_time": rate_of_cell,
                                       "expected_probability": probability, "confirmed": accepted,
                                       "upper_limit_of_draw": self.confirm})
                    ctx.probes["c18_confirmation_decisions_judged"] += 1
        if self.confirm is None or expected is None:
            return
        # the scale of the confirmation draw is the bound the alias table holds for the sampled offset (times the
        # charge factor), per unit of time or per unit of length -- unless the handler draws a plain unit variate
        if self.confirm != 1.0 and proposal is not None:
            per_time = proposal[0]
            if abs(self.confirm - per_time) > 1e-6 * per_time and abs(self.confirm - expected) > 1e-6 * expected:
                ctx.violation("C18", "confirmation_not_against_the_bound_of_the_sampled_offset",
                              {"upper_limit_of_draw": self.confirm,
                               "bound_of_sampled_cell_times_charge_factor": expected,
                               "the_same_times_speed": per_time})
        ctx.probes["c18_confirmations_checked"] += 1

    def at_end(self, status):
        pass


