"""C17: samples and end of run at nominal times on a fully time-sliced state (DESIGN.md section 4, C17)."""
from fractions import Fraction

from ..seams import Monitor
from ..runsim import walk_units, unit_record
from .kinematics import box_lengths, advance, periodic_diff, POS_TOL

ROUNDING = Fraction(1, 2 ** 52)   # one rounding of a remainder in [0, 1) is at most 2**-53; allow twice that


def section_of(handler):
    from jellyfysh.base.factory import get_alias
    return get_alias(handler.__class__.__name__)


class Sampling(Monitor):
    name = "C17"

    def __init__(self, ctx):
        self.ctx = ctx
        self.counts = {}
        self.info = {}
        self.last_commit_kind = None
        self.last_commit_time = None
        self.coincide = False
        self.samples_checked = 0
        self.expect_write_for = None
        self.end_time = None
        for section, options in ctx.sections.items():
            if "end_of_run_time" in options:
                self.end_time = float(options["end_of_run_time"])

    def _info(self, handler):
        if handler not in self.info:
            options = self.ctx.sections.get(section_of(handler), {})
            zero = options.get("first_event_time_zero", "false").lower() in ("1", "yes", "true", "on")
            self.info[handler] = (float(options["sampling_interval"]), zero, options.get("output_handler"))
        return self.info[handler]

    def on_insert_end(self, state_handler, out_state):
        ctx = self.ctx
        handler = ctx.current_handler
        kind = ctx.kind(handler)
        now = ctx.now
        self.last_commit_kind = kind
        self.last_commit_time = (now.quotient, now.remainder)
        self.expect_write_for = None
        if kind == "sampling" and "sampling_interval" in ctx.sections.get(section_of(handler), {}):
            interval, zero, output = self._info(handler)
            k = self.counts.get(handler, 0) + 1
            self.counts[handler] = k
            steps = k - 1 if zero else k
            nominal = Fraction(interval) * steps
            actual = Fraction(now.quotient) + Fraction(now.remainder)
            # one rounding per step: the sum remainder + interval (below interval + 1) is rounded once, by at most
            # (interval + 1) * 2**-53; twice that is allowed
            per_step = ROUNDING * max(Fraction(1), Fraction(interval) + 1)
            if abs(actual - nominal) > per_step * (k + 2):
                ctx.violation("C17", "sample_time_off_nominal",
                              {"k": k, "interval": interval, "first_zero": zero, "time": (now.quotient, now.remainder),
                               "error": float(actual - nominal)})
            if not (now.remainder >= 0.0 and now.remainder < 1.0 and now.quotient == int(now.quotient)):
                ctx.violation("C17", "sample_time_not_normalised", {"time": (now.quotient, now.remainder)})
            self.expect_write_for = (handler, output)
            # the committed (time-sliced) active units carry the sample time
            for rec in ctx.out_records:
                if rec[2] is not None and rec[3] != (now.quotient, now.remainder):
                    ctx.violation("C17", "moving_unit_not_sliced_to_sample_time",
                                  {"identifier": rec[0], "time_stamp": rec[3], "sample_time": (now.quotient, now.remainder)})
        if kind == "end_of_run" and self.end_time is not None:
            actual = Fraction(now.quotient) + Fraction(now.remainder)
            if actual != Fraction(self.end_time):
                ctx.violation("C17", "end_of_run_not_at_configured_time",
                              {"configured": self.end_time, "time": (now.quotient, now.remainder)})

    def on_write(self, io_handler, name, args):
        ctx = self.ctx
        handler = ctx.current_handler
        kind = ctx.kind(handler)
        if kind not in ("sampling", "end_of_run"):
            return
        if not args or not isinstance(args[0], list):
            return
        now = (ctx.now.quotient, ctx.now.remainder)
        lengths = box_lengths()
        if self.expect_write_for is not None:
            if self.expect_write_for[1] != name:
                ctx.violation("C17", "sample_written_to_wrong_output_handler",
                              {"expected": self.expect_write_for[1], "got": name})
            self.expect_write_for = "done"
        moving = 0
        for unit in walk_units(args[0]):
            rec = unit_record(unit)
            ident = rec[0]
            if ctx.S.get(ident) != rec[1:]:
                # ctx.S is built from the committed out-states only (not read back through the state handler)
                ctx.violation("C17", "written_state_is_not_the_committed_state",
                              {"identifier": ident, "written": rec[1:], "committed": ctx.S.get(ident)})
            if rec[2] is not None:
                moving += 1
                if rec[3] != now:
                    ctx.violation("C17", "written_moving_unit_not_at_sample_time",
                                  {"identifier": ident, "time_stamp": rec[3], "sample_time": now})
                before = ctx.G_prev.get(ident)
                expected = advance(before, now, lengths)
                for d, length in enumerate(lengths):
                    if periodic_diff(expected[d], rec[1][d], length) > POS_TOL * length:
                        ctx.violation("C17", "written_position_not_on_trajectory",
                                      {"identifier": ident, "expected": expected, "written": rec[1]})
        if len(list(walk_units(args[0]))) != len(ctx.S):
            ctx.violation("C17", "written_state_incomplete", {"written": len(list(walk_units(args[0]))),
                                                              "units": len(ctx.S)})
        if moving == 0 and ctx.step > 1:
            ctx.violation("C17", "written_state_has_no_moving_unit", {})
        self.samples_checked += 1
        ctx.probes["c17_samples_checked"] += 1

    def on_get(self, scheduler, handler):
        if self.expect_write_for not in (None, "done"):
            self.ctx.violation("C17", "sampling_event_without_write", {"handler": self.expect_write_for[0].__class__.__name__})
        self.expect_write_for = None

    def at_end(self, status):
        ctx = self.ctx
        if status != "ok":
            return
        if self.last_commit_kind != "end_of_run":
            ctx.violation("C17", "run_did_not_end_with_end_of_run_event", {"last": self.last_commit_kind}, stop=False)
            return
        if self.end_time is None:
            return
        end = Fraction(self.end_time)
        import math
        for handler, (interval, zero, output) in self.info.items():
            k = self.counts.get(handler, 0)
            step = Fraction(interval)
            base = math.floor(end / step)
            exact = base if step * base < end else base - 1     # multiples n >= 1 with n * interval < end
            exact = max(exact, 0) + (1 if (zero and end > 0) else 0)
            near_tie = any(n >= (0 if zero else 1)
                           and abs(step * n - end) <= ROUNDING * max(Fraction(1), step + 1) * (n + 3)
                           for n in (base, base + 1))
            if near_tie:
                ctx.probes["c17_sample_coincides_with_end"] += 1
                ok = exact - 1 <= k <= exact + 1
            else:
                ok = (k == exact)
            if not ok:
                ctx.violation("C17", "number_of_samples_wrong",
                              {"written": k, "expected": exact, "interval": interval, "end": self.end_time,
                               "first_zero": zero, "near_tie": near_tie}, stop=False)
