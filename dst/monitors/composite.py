"""C12: composite objects stay consistent with their point masses (DESIGN.md section 4, C12)."""
from ..seams import Monitor
from .kinematics import box_lengths, advance, POS_TOL, VEL_TOL


def nearest_image_offset(reference, position, length):
    s = (position - reference + length / 2.0) % length - length / 2.0
    return s


class Composite(Monitor):
    name = "C12"

    def __init__(self, ctx):
        self.ctx = ctx
        self.max_pos_dev = 0.0
        self.max_vel_dev = 0.0
        self.checked = 0
        self.speed = None

    def on_mediator(self, *args):
        # the initial (randomly generated) molecules
        self._check(self.ctx.G, (0.0, 0.0), "initial_state")

    def on_insert_end(self, state_handler, out_state):
        ctx = self.ctx
        self._check(ctx.G, (ctx.now.quotient, ctx.now.remainder), ctx.current_handler.__class__.__name__)

    def _check(self, G, now, where):
        ctx = self.ctx
        lengths = box_lengths()
        for root in ctx.roots:
            kids = ctx.children.get(root) or []
            if not kids:
                continue
            rpos, rvel, rts = G[root]
            moving = [k for k in kids if G[k][1] is not None]
            dim = len(rpos)
            expected = [0.0] * dim
            scale = 0.0
            for k in moving:
                w = ctx.weights[k]
                for d in range(dim):
                    expected[d] += w * G[k][1][d]
                    scale = max(scale, abs(G[k][1][d]))
            if not moving:
                if rvel is not None:
                    ctx.violation("C12", "root_moves_but_no_member_moves", {"root": root, "velocity": rvel,
                                                                             "where": where})
            else:
                if rvel is None:
                    if any(abs(e) > 1e-13 for e in expected):
                        ctx.violation("C12", "root_velocity_absent_but_members_move",
                                      {"root": root, "expected": expected, "where": where})
                else:
                    for d in range(dim):
                        dev = abs(rvel[d] - expected[d])
                        self.max_vel_dev = max(self.max_vel_dev, dev)
                        if dev > VEL_TOL * max(scale, 1e-300):
                            ctx.violation("C12", "root_velocity_not_weighted_sum",
                                          {"root": root, "stored": rvel, "expected": expected, "where": where})
            # barycentre at the event time, nearest images
            rnow = advance(G[root], now, lengths)
            for d in range(dim):
                acc = 0.0
                for k in kids:
                    know = advance(G[k], now, lengths)
                    acc += ctx.weights[k] * nearest_image_offset(rnow[d], know[d], lengths[d])
                dev = abs(acc)
                self.max_pos_dev = max(self.max_pos_dev, dev / lengths[d])
                if dev > POS_TOL * lengths[d]:
                    ctx.violation("C12", "root_position_not_barycentre",
                                  {"root": root, "direction": d, "deviation": dev, "where": where,
                                   "root_record": G[root], "members": [G[k] for k in kids], "event_time": now})
            self.checked += 1

    def at_end(self, status):
        self.ctx.notes["c12_max_pos_dev_over_L"] = self.max_pos_dev
        self.ctx.notes["c12_max_vel_dev"] = self.max_vel_dev
        self.ctx.probes["c12_objects_checked"] += self.checked
