"""C13 (run part): only commits change the global state; extracted branches carry the current values and the right
shape; the active part is the set of independently moving units (DESIGN.md section 4, C13)."""
from ..seams import Monitor
from ..runsim import snapshot_state, walk_cnodes, unit_record


class Isolation(Monitor):
    name = "C13"

    def __init__(self, ctx):
        self.ctx = ctx
        self.extracts = 0
        self.handed_ids = {}
        self.sample_every = ctx.scenario.get("c13_sample_every", 1)

    def on_insert_begin(self, state_handler, out_state):
        ctx = self.ctx
        current = snapshot_state(state_handler.extract_global_state())
        if current != ctx.G:
            diff = [(k, ctx.G.get(k), current.get(k)) for k in set(ctx.G) | set(current)
                    if ctx.G.get(k) != current.get(k)][:4]
            ctx.violation("C13", "global_state_changed_between_commits",
                          {"differences": diff, "handler": ctx.current_handler.__class__.__name__})

    def on_extract(self, state_handler, identifier, branch):
        ctx = self.ctx
        self.extracts += 1
        for cnode in walk_cnodes([branch]):
            unit = cnode.value
            for obj in (cnode, unit, unit.position, unit.velocity, unit.time_stamp):
                if obj is not None:
                    if id(obj) in self.handed_ids:
                        ctx.violation("C13", "extracted_branch_shares_objects_with_an_earlier_extraction",
                                      {"identifier": tuple(identifier), "type": type(obj).__name__})
                    self.handed_ids[id(obj)] = obj
        if len(self.handed_ids) > 20000:
            self.handed_ids.clear()
        identifier = tuple(identifier)
        G = ctx.G
        # shape: root ancestor, path to the node, all descendants
        node = branch
        if tuple(node.value.identifier) != identifier[:1]:
            ctx.violation("C13", "branch_root_wrong", {"asked": identifier, "got": node.value.identifier})
        seen = []
        for level in range(1, len(identifier)):
            seen.append(node)
            if len(node.children) != 1 or tuple(node.children[0].value.identifier) != identifier[:level + 1]:
                ctx.violation("C13", "branch_path_wrong", {"asked": identifier,
                                                           "children": [c.value.identifier for c in node.children]})
            if node.children[0].parent is not node:
                ctx.violation("C13", "branch_parent_link_wrong", {"asked": identifier})
            node = node.children[0]
        # below the asked node: every descendant of the global tree
        stack = [node]
        while stack:
            c = stack.pop()
            ident = tuple(c.value.identifier)
            expected_children = ctx.children.get(ident)
            if expected_children is None:
                ctx.violation("C13", "branch_contains_unknown_unit", {"identifier": ident})
            if [tuple(k.value.identifier) for k in c.children] != expected_children:
                ctx.violation("C13", "branch_descendants_wrong", {"identifier": ident,
                                                                  "children": [k.value.identifier for k in c.children],
                                                                  "expected": expected_children})
            stack.extend(c.children)
        for c in walk_cnodes([branch]):
            rec = unit_record(c.value)
            if G.get(rec[0]) != rec[1:]:
                ctx.violation("C13", "branch_values_not_current", {"identifier": rec[0], "branch": rec[1:],
                                                                   "global": G.get(rec[0])})
            if c.value.charge != ctx.charges.get(rec[0]):
                ctx.violation("C13", "branch_charge_wrong", {"identifier": rec[0]})

    def on_extract_active(self, state_handler, result):
        ctx = self.ctx
        G = ctx.G
        # two extractions are isolated copies: no unit, position, velocity or time-stamp object is handed out twice
        # (the previous results are kept alive, so an identity can only repeat if the object is shared)
        handed = []
        for cnode in walk_cnodes(result):
            unit = cnode.value
            handed.extend(x for x in (cnode, unit, unit.position, unit.velocity, unit.time_stamp) if x is not None)
        seen = self.handed_ids
        for obj in handed:
            if id(obj) in seen:
                ctx.violation("C13", "extracted_active_part_shares_objects_with_an_earlier_extraction",
                              {"type": type(obj).__name__})
        for obj in handed:
            seen[id(obj)] = obj
        if len(seen) > 20000:
            seen.clear()
        expected = []
        for root in ctx.roots:
            kids = ctx.children.get(root) or []
            if not kids:
                if G[root][1] is not None:
                    expected.append(root)
                continue
            moving = [k for k in kids if G[k][1] is not None]
            if moving and len(moving) == len(kids):
                expected.append(root)
            else:
                expected.extend(moving)
        got = []
        for branch in result:
            # the independent unit of a branch: the deepest node of the single-child path
            node = branch
            ident = tuple(node.value.identifier)
            kids = ctx.children.get(ident) or []
            if kids and len(node.children) == 1 and len(kids) != 1:
                node = node.children[0]
            got.append(tuple(node.value.identifier))
        if sorted(got) != sorted(expected):
            ctx.violation("C13", "active_part_not_independent_units", {"got": got, "expected": expected})

    def at_end(self, status):
        self.ctx.probes["c13_extractions_checked"] += self.extracts
