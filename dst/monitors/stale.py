"""C08: a committed interaction / cell-veto event was computed from the trajectory that is still current
(DESIGN.md section 4, C08)."""
from ..seams import Monitor
from ..runsim import walk_units, unit_record
from .kinematics import box_lengths, periodic_diff, POS_TOL

KINDS = ("interaction", "cell_veto")


class Stale(Monitor):
    name = "C08"

    def __init__(self, ctx):
        self.ctx = ctx
        self.snapshots = {}      # handler -> (records, step at which the candidate was computed)
        self.checked_units = 0
        self.checked_events = 0

    def on_send_event_time_begin(self, handler, args):
        ctx = self.ctx
        if ctx.kind(handler) not in KINDS or not args:
            return
        records = [unit_record(u) for u in walk_units(args[0])]
        self.snapshots[handler] = (records, ctx.step)

    def on_insert_begin(self, state_handler, out_state):
        ctx = self.ctx
        handler = ctx.current_handler
        if ctx.kind(handler) not in KINDS:
            return
        snap = self.snapshots.get(handler)
        if snap is None:
            ctx.violation("C08", "committed_event_without_candidate_request", {"handler": handler.__class__.__name__})
        records, step = snap
        lengths = box_lengths()
        G = ctx.G   # global state just before this insert
        sliced = False
        for ident, pos, vel, ts in records:
            cur = G.get(ident)
            if cur is None:
                ctx.violation("C08", "in_state_unit_unknown", {"identifier": ident})
            cpos, cvel, cts = cur
            if cvel != vel:
                ctx.violation("C08", "velocity_changed_since_candidate_was_computed",
                              {"identifier": ident, "then": vel, "now": cvel, "computed_at_step": step,
                               "handler": handler.__class__.__name__, "tag": ctx.tag_of(handler)})
            if vel is None:
                if cpos != pos:
                    ctx.violation("C08", "resting_unit_moved_since_candidate_was_computed",
                                  {"identifier": ident, "then": pos, "now": cpos, "computed_at_step": step,
                                   "handler": handler.__class__.__name__, "tag": ctx.tag_of(handler)})
            else:
                dt = (cts[0] - ts[0]) + (cts[1] - ts[1])
                if dt != 0.0:
                    sliced = True
                for d, length in enumerate(lengths):
                    expected = pos[d] + vel[d] * dt
                    if periodic_diff(expected, cpos[d], length) > POS_TOL * length:
                        ctx.violation("C08", "unit_left_trajectory_since_candidate_was_computed",
                                      {"identifier": ident, "then": (pos, vel, ts), "now": cur,
                                       "computed_at_step": step, "handler": handler.__class__.__name__,
                                       "tag": ctx.tag_of(handler)})
            self.checked_units += 1
        self.checked_events += 1
        if sliced:
            ctx.probes["c08_time_sliced_between_request_and_commit"] += 1
        if step < ctx.step:
            ctx.probes["c08_commits_between_request_and_commit"] += 1

    def on_trash(self, scheduler, handler):
        self.snapshots.pop(handler, None)

    def on_get(self, scheduler, handler):
        # the event that fires must be the live candidate of its handler: if another pending candidate is strictly
        # earlier in the shadow scheduler, what fired is an older (trashed) entry of this handler, i.e. a candidate
        # computed from an in-state that is no longer the one on record
        ctx = self.ctx
        if ctx.kind(handler) not in KINDS:
            return
        mine = ctx.pending.get(handler)
        if mine is None:
            ctx.violation("C08", "trashed_candidate_fired", {"handler": handler.__class__.__name__,
                                                             "tag": ctx.tag_of(handler)})
        best = min((t.quotient, t.remainder) for t in ctx.pending.values())
        if (mine.quotient, mine.remainder) > best:
            ctx.violation("C08", "fired_event_is_not_the_live_candidate_of_its_handler",
                          {"handler": handler.__class__.__name__, "tag": ctx.tag_of(handler),
                           "live_candidate_time": (mine.quotient, mine.remainder), "earliest_pending": best})

    def on_insert_end(self, state_handler, out_state):
        # probe only (a lazily trashing design would still satisfy the property): stale candidates left pending
        ctx = self.ctx
        changed = set(rec[0] for rec in ctx.out_records
                      if ctx.G_prev.get(rec[0], (None, None, None))[1] != rec[2])
        if not changed:
            return
        for handler, (records, step) in self.snapshots.items():
            if handler is ctx.current_handler or handler not in ctx.pending:
                continue
            if any(r[0] in changed for r in records):
                ctx.probes["c08_stale_candidate_pending_after_commit"] += 1

    def at_end(self, status):
        self.ctx.probes["c08_events_checked"] += self.checked_events
        self.ctx.probes["c08_units_checked"] += self.checked_units
