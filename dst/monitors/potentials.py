"""C02 (displacement inverts the cumulative uphill energy) and C03 (derivatives are directional derivatives of the
model energy): reference-model oracles at the potential seam, evaluated on the calls real event handlers make during
simulated runs (DESIGN.md section 4)."""
import math

from ..seams import Monitor, FACADE
from .. import refenergy


def analyse_velocity(velocity):
    nonzero = [i for i, v in enumerate(velocity) if v != 0.0]
    if len(nonzero) != 1:
        return None, None
    return nonzero[0], velocity[nonzero[0]]


class Potentials(Monitor):
    name = "potentials"

    def __init__(self, ctx, props=("C02", "C03"), ewald_every=40, force_budgets=True):
        self.ctx = ctx
        self.props = props
        self.refs = {}
        self.params = {}
        self.ewald = None
        self.ewald_every = ewald_every
        self.calls = 0
        self.coulomb_calls = 0
        self.busy = False
        self.copies = {}
        self.copy_calls = {}
        self.force_budgets = force_budgets and "C02" in props
        self.worst = {}
        if self.force_budgets:
            # rare inputs: a random subset of the energy budgets is drawn from the far ends of (0, 1)
            import random
            self.rng = random.Random(ctx.scenario["seed"] ^ 0xB0D6E7)
            self.force_rate = self.rng.choice([0.0, 0.02, 0.1])
            # one run in eight also forces uniform variates below 1e-13 (the last few hundred values above zero the
            # generator can produce); the others stay within what occurs once in about 2**40 draws
            self.tiny = ctx.scenario["seed"] % 8 == 0
            if self.tiny:
                self.force_rate = 0.05
            FACADE.override = self.override

    def override(self, kind, args, site, u):
        if kind != "expovariate" or self.force_rate == 0.0 or self.rng.random() >= self.force_rate:
            return None
        self.ctx.probes["forced_extreme_budget"] += 1
        if self.rng.random() < 0.5:
            if self.tiny and self.rng.random() < 0.5:
                self.ctx.probes["forced_budget_below_1e-13"] += 1
                return 10.0 ** self.rng.uniform(-15.9, -13.0)
            return 10.0 ** self.rng.uniform(-12.0, -6.0)          # small budgets
        return 1.0 - 10.0 ** self.rng.uniform(-16.0, -4.0)        # budgets up to about 37 / beta

    def _tiny_budget(self, potential, args, kwargs):
        """The class of inputs of the known finding C02-tiny-budget: an energy budget below 1e-12, or below 1e-13 of
        the magnitude of the pair energy at the start (what double precision resolves of the energy there)."""
        budget = kwargs.get("potential_change", args[-1] if args else None)
        if not isinstance(budget, float) or len(args) + len(kwargs) <= 2:
            return False
        if budget < 1e-12:
            return True
        try:
            ref, _ = self._ref(potential)
            if ref is None or not hasattr(ref, "energy"):
                return False
            separation = args[1]
            rest = [x for x in args[2:] if isinstance(x, (int, float))]
            if "potential_change" not in kwargs and rest:
                rest.pop()
            c = 1.0
            for charge in rest:
                c *= charge
            energy = abs(ref.energy(math.sqrt(sum(x * x for x in separation)), c))
        except Exception:
            return False
        return budget < 1e-13 * energy

    def _ref(self, potential):
        key = id(potential)
        if key not in self.refs:
            self.refs[key] = refenergy.reference_for(potential, self.ctx.sections, self.ctx.setting)
            self.params[key] = refenergy.parameters_of(potential, self.ctx.sections)
        return self.refs[key], self.params[key]

    def on_potential_call(self, potential, name, args, kwargs, result, exc):
        if self.busy:
            return      # the harness itself is asking a copy
        ctx = self.ctx
        names = refenergy.base_names(potential)
        if exc is not None:
            prop = "C02" if name == "displacement" else "C03"
            if prop in self.props and not isinstance(exc, NotImplementedError):
                detail = {"potential": potential.__class__.__name__, "error": repr(exc)[:300],
                          "args": repr(args)[:600], "kwargs": repr(kwargs)[:200]}
                if name == "displacement":
                    detail["tiny_budget"] = self._tiny_budget(potential, args, kwargs)
                ctx.violation(prop, name + "_raised", detail)
            return
        self.calls += 1
        if name == "displacement" and "C02" in self.props:
            self._check_displacement(potential, names, args, kwargs, result)
            self._check_copies("C02", potential, names, name, args, kwargs, result)
        elif name == "derivative" and "C03" in self.props:
            self._check_derivative(potential, names, args, kwargs, result)
            self._check_copies("C03", potential, names, name, args, kwargs, result)

    def _check_copies(self, prop, potential, names, name, args, kwargs, result):
        """What a dump / resume and the creation of further event handlers do to a potential: the deep copy and the
        dill round trip of the very object answer the same call with the same value (1 call in 25 per object)."""
        cell_bound = "CellBoundingPotential" in names
        if cell_bound and name != "displacement":
            return      # its derivative answers from the state its last displacement call left behind
        key = id(potential)
        count = self.copy_calls.get(key, 0)
        self.copy_calls[key] = count + 1
        if count % 25:
            return
        import copy
        import dill
        if key not in self.copies:
            try:
                if cell_bound:
                    # the bounds are stored per Cell object: the twin is asked with its own copies of the cells (a
                    # twin that is asked only now and then does not share whatever the original remembers of its
                    # previous calls; the displacement must be a function of the arguments alone)
                    memo = {}
                    self.copies[key] = (potential, {"deep_copy": copy.deepcopy(potential, memo)}, memo)
                else:
                    self.copies[key] = (potential, {"deep_copy": copy.deepcopy(potential),
                                                    "dill_round_trip": dill.loads(dill.dumps(potential))}, None)
            except Exception as error:
                self.copies[key] = (potential, {}, None)
                self.ctx.probes["potential_copy_failed_" + type(error).__name__] += 1
        memo = self.copies[key][2]
        self.busy = True
        try:
            for variant, clone in self.copies[key][1].items():
                try:
                    if memo is not None:
                        translated = [memo.get(id(a), None) if type(a).__name__ == "Cell" else copy.deepcopy(a)
                                      for a in args]
                        if any(t is None for t in translated):
                            self.ctx.probes["potential_copy_cell_without_twin"] += 1
                            continue
                        again = getattr(clone, name)(*translated, **copy.deepcopy(kwargs))
                    else:
                        again = getattr(clone, name)(*copy.deepcopy(args), **copy.deepcopy(kwargs))
                except Exception as error:
                    self.ctx.violation(prop, name + "_raised_on_a_copy_of_the_potential",
                                       {"potential": potential.__class__.__name__, "copy": variant,
                                        "error": repr(error)[:300], "args": repr(args)[:600]})
                same = (again == result) or (isinstance(again, float) and isinstance(result, float) and (
                    (math.isnan(again) and math.isnan(result)) or abs(again - result) <= 1e-12 * abs(result)))
                if not same:
                    self.ctx.violation(prop, name + "_of_a_copy_of_the_potential_differs",
                                       {"potential": potential.__class__.__name__, "copy": variant,
                                        "original": result, "copy_returns": again, "args": repr(args)[:600],
                                        "kwargs": repr(kwargs)[:200]})
                self.ctx.probes["potential_copies_compared_" + variant] += 1
        finally:
            self.busy = False

    # -- C02 ------------------------------------------------------------------------------------------------------------
    def _check_displacement(self, potential, names, args, kwargs, result):
        ctx = self.ctx
        velocity = args[0]
        if not isinstance(result, float):
            ctx.violation("C02", "displacement_not_a_float", {"potential": potential.__class__.__name__,
                                                             "returned": repr(result)})
        if math.isnan(result):
            ctx.violation("C02", "displacement_is_nan",
                          {"potential": potential.__class__.__name__, "args": repr(args)[:600],
                           "tiny_budget": self._tiny_budget(potential, args, kwargs)})
        ref, params = self._ref(potential)
        label = potential.__class__.__name__
        if "HardSpherePotential" in names:
            problem = refenergy.check_hard_sphere(params, velocity, args[1], result)
            ctx.probes["c02_hard_sphere_" + ("inf" if math.isinf(result) else "contact")] += 1
        elif "HardDipolePotential" in names:
            problem = refenergy.check_hard_dipole(params, velocity, args[1], result)
            ctx.probes["c02_hard_dipole"] += 1
        elif "CellBoundingPotential" in names:
            budget = kwargs.get("potential_change", args[-1])
            rate = potential.derivative(*args[:-1]) if "potential_change" not in kwargs else potential.derivative(*args)
            speed = analyse_velocity(velocity)[1]
            problem = None
            if rate > 0.0:
                if math.isinf(result) or abs(result * rate - budget) > 1e-9 * budget:
                    problem = ("cell_bound_time_times_rate_differs_from_budget", {"rate": rate, "budget": budget,
                                                                                  "returned": result})
            elif not math.isinf(result):
                problem = ("cell_bound_finite_time_for_non_positive_rate", {"rate": rate, "returned": result})
            ctx.probes["c02_cell_bounding"] += 1
        elif ref is not None:
            direction, speed = analyse_velocity(velocity)
            if direction is None:
                return
            separation = args[1]
            rest = list(args[2:])
            budget = kwargs["potential_change"] if "potential_change" in kwargs else rest.pop()
            c = 1.0
            for charge in rest:
                c *= charge
            problem = refenergy.check_displacement(ref, c, velocity, separation, budget, result, direction, speed)
            front = separation[direction] <= 0.0
            ctx.probes["c02_%s_%s_%s" % (type(ref).__name__, "front" if front else "behind",
                                         "inf" if math.isinf(result) else "finite")] += 1
            if ref.periodic_in_motion and not math.isinf(result) and result * speed > ref.length:
                ctx.probes["c02_periodic_whole_box_laps"] += 1
            if ref.stationary(c):
                inside = math.sqrt(sum(x * x for x in separation)) < ref.stationary(c)[0]
                ctx.probes["c02_mexican_hat_" + ("inside" if inside else "outside")] += 1
        else:
            ctx.probes["c02_unreferenced_" + label] += 1
            return
        if problem is not None:
            ctx.violation("C02", problem[0], dict(problem[1], potential=label, velocity=list(velocity),
                                                  arguments=repr(args[1:])[:500], kwargs=repr(kwargs)[:200],
                                                  tiny_budget=self._tiny_budget(potential, args, kwargs)))
        ctx.probes["c02_displacements_checked"] += 1

    # -- C03 ------------------------------------------------------------------------------------------------------------
    def _check_derivative(self, potential, names, args, kwargs, result):
        ctx = self.ctx
        velocity = args[0]
        label = potential.__class__.__name__
        if "CellBoundingPotential" in names:
            return
        if "BendingPotential" in names:
            self._check_bending(potential, args, result)
            return
        separation = args[1]
        c = 1.0
        for charge in args[2:]:
            c *= charge
        if "MergedImageCoulombPotential" in names:
            self.coulomb_calls += 1
            if self.coulomb_calls % self.ewald_every != 1:
                return
            ref, params = self._ref(potential)
            import jellyfysh.setting.hypercubic_setting as hs
            if self.ewald is None or self.ewald.length != hs.system_length:
                self.ewald = refenergy.Ewald(hs.system_length)
            expected = params["prefactor"] * c * self.ewald.derivative(velocity, separation)
            scale = abs(params["prefactor"] * c) * math.sqrt(sum(v * v for v in velocity)) / hs.system_length ** 2
            deviation = abs(result - expected)
            self._worst("coulomb", deviation / max(abs(expected), scale))
            if deviation > 1e-5 * max(abs(expected), scale):
                ctx.violation("C03", "coulomb_derivative_differs_from_converged_lattice_sum",
                              {"returned": result, "expected": expected, "separation": list(separation),
                               "velocity": list(velocity), "charges": list(args[2:])})
            # periodic in the box and odd in the direction of motion, on the same observed arguments
            direction, speed = analyse_velocity(velocity)
            if direction is not None:
                length = hs.system_length
                mirrored = list(separation)
                mirrored[direction] = -mirrored[direction]
                odd = potential.derivative(velocity, mirrored, *args[2:])
                if abs(odd + result) > 1e-9 * max(abs(result), scale):
                    ctx.violation("C03", "coulomb_derivative_not_odd", {"at": list(separation), "value": result,
                                                                        "mirrored_value": odd})
            ctx.probes["c03_coulomb_checked"] += 1
            return
        ref, params = self._ref(potential)
        if ref is None:
            ctx.probes["c03_unreferenced_" + label] += 1
            return
        estimate = refenergy.finite_difference_pair(ref, c, velocity, separation)
        if estimate is None:
            ctx.probes["c03_skipped_on_box_face"] += 1
            return
        expected, fd_error = estimate
        # natural scale: the radial derivative times the speed (the directional derivative vanishes at x = 0)
        r = math.sqrt(sum(x * x for x in separation))
        radial = abs(ref.energy(r * (1.0 + 1e-6), c) - ref.energy(r * (1.0 - 1e-6), c)) / (2e-6 * r)
        scale = max(abs(expected), radial * math.sqrt(sum(v * v for v in velocity)))
        deviation = abs(result - expected)
        self._worst(type(ref).__name__, deviation / max(scale, 1e-300))
        if deviation > 1e-6 * scale + 4.0 * fd_error:
            ctx.violation("C03", "derivative_differs_from_finite_difference_of_model_energy",
                          {"potential": label, "returned": result, "expected": expected,
                           "separation": list(separation), "velocity": list(velocity), "charges": list(args[2:])})
        ctx.probes["c03_%s_checked" % type(ref).__name__] += 1

    def _check_bending(self, potential, args, result):
        ctx = self.ctx
        velocity, s1, s2 = args[0], args[1], args[2]
        ref, params = self._ref(potential)
        k, phi0 = params["prefactor"], params["equilibrium_angle"]
        direction, speed = analyse_velocity(velocity)
        if direction is None:
            return
        h = 1e-6 * min(math.sqrt(sum(x * x for x in s1)), math.sqrt(sum(x * x for x in s2)))

        def moved(which, delta):
            a, b = list(s1), list(s2)
            if which == 0:
                a[direction] += delta
            elif which == 2:
                b[direction] += delta
            else:
                a[direction] -= delta
                b[direction] -= delta
            return refenergy.bending_energy(k, phi0, a, b)

        expected = [speed * (moved(i, h) - moved(i, -h)) / (2.0 * h) for i in range(3)]
        scale = max(abs(e) for e in expected)
        floor = 1e-8 * abs(k) * speed / min(math.sqrt(sum(x * x for x in s1)), math.sqrt(sum(x * x for x in s2)))
        for i in range(3):
            if abs(result[i] - expected[i]) > 1e-5 * scale + floor:
                ctx.violation("C03", "bending_derivative_differs_from_finite_difference",
                              {"unit": i, "returned": list(result), "expected": expected,
                               "separations": [list(s1), list(s2)]})
        if abs(sum(result)) > 1e-9 * scale + 1e-6 * floor:
            ctx.violation("C03", "bending_derivatives_do_not_sum_to_zero", {"returned": list(result)})
        ctx.probes["c03_bending_checked"] += 1

    def _worst(self, key, value):
        if value > self.worst.get(key, 0.0):
            self.worst[key] = value

    def at_end(self, status):
        for key, value in self.worst.items():
            self.ctx.notes["c03_worst_relative_deviation_" + key] = value
        self.ctx.probes["potential_calls_seen"] += self.calls
