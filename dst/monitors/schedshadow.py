"""C06 on the histories the real mediator produces: the event returned by the real scheduler is live in the shadow
scheduler and has the minimal time."""
import math

from ..seams import Monitor


class SchedulerShadow(Monitor):
    name = "C06-run"

    def __init__(self, ctx):
        self.ctx = ctx
        self.gets = 0

    def on_get(self, scheduler, handler):
        ctx = self.ctx
        pending = ctx.pending
        if handler not in pending:
            ctx.violation("C06", "run_scheduler_returned_trashed_event", {"handler": handler.__class__.__name__})
        t = pending[handler]
        mine = (t.quotient, t.remainder)
        best = min((p.quotient, p.remainder) for p in pending.values())
        if mine != best:
            ctx.violation("C06", "run_scheduler_returned_non_minimal_event",
                          {"handler": handler.__class__.__name__, "time": mine, "minimal": best})
        if math.isinf(mine[0]):
            ctx.violation("C06", "run_scheduler_returned_infinite_time", {"handler": handler.__class__.__name__})
        self.gets += 1

    def on_get_failed(self, scheduler, exc):
        self.ctx.violation("C06", "run_scheduler_failed", {"error": repr(exc)[:300], "pending": len(self.ctx.pending)})

    def at_end(self, status):
        self.ctx.probes["run_gets_checked"] += self.gets
