"""C10 (decompositions cover each partner exactly once) and C11 (cell occupancy mirrors positions), evaluated at
every leg through the public interface of the cell occupancy, the cell system and the taggers (DESIGN.md section 4)."""
from collections import Counter

from ..seams import Monitor
from .. import gen
from ..scenario import camel
from .kinematics import box_lengths, advance
from .pending import canonical, base_names

TOL = 1e-9


def alias_section(obj):
    from jellyfysh.base.factory import get_alias
    return get_alias(obj.__class__.__name__)


def contains(cell, position, lengths, tol=0.0):
    """Extent test; with a tolerance the position is taken modulo the box and a rounding across a cell or box
    boundary is accepted."""
    for d, x in enumerate(position):
        lo, hi = cell.cell_min[d], cell.cell_max[d]
        if not tol:
            if lo <= x <= hi:
                continue
            return False
        length = lengths[d]
        x = x % length
        eps = tol * length
        if any(lo - eps <= y <= hi + eps for y in (x, x + length, x - length)):
            continue
        return False
    return True


class CellInfo(object):
    def __init__(self, ctx, state):
        from jellyfysh.activator.internal_state.cell_occupancy.cell_occupancy import CellOccupancy
        self.state = state
        self.is_occupancy = isinstance(state, CellOccupancy)
        if not self.is_occupancy:
            return
        options = ctx.sections.get(alias_section(state), {})
        self.charge = options.get("charge")
        self.limit = int(options.get("maximum_number_occupants", "1"))
        self.level = state.cell_level
        self.cells = state.cells
        self.cell_list = list(self.cells.yield_cells())
        self.taggers = {"excluded": [], "surplus": [], "veto": [], "bounding": [], "boundary": []}
        for tagger in ctx.taggers:
            if getattr(tagger, "internal_state", None) is not state:
                continue
            names = base_names(type(tagger))
            for key, cls in (("excluded", "ExcludedCellsTagger"), ("surplus", "SurplusCellsTagger"),
                             ("veto", "CellVetoTagger"), ("bounding", "CellBoundingPotentialTagger"),
                             ("boundary", "CellBoundaryTagger")):
                if cls in names:
                    self.taggers[key].append(tagger)
        self.relevant = [ident for ident in ctx.G if len(ident) == self.level and self._relevant(ctx, ident)]
        self.expected_after_boundary = None
        self.last_active = None

    def _relevant(self, ctx, ident):
        if self.charge is None:
            return True
        charge = ctx.charges.get(ident)
        return charge is not None and charge.get(self.charge, 0) != 0

    def cell_of(self, position, lengths):
        found = [cell for cell in self.cell_list if contains(cell, position, lengths)]
        return found


class Cells(Monitor):
    """Serves C10 and C11; ``props`` selects which oracles raise."""
    name = "cells"

    def __init__(self, ctx, props=("C10", "C11"), report_as=None):
        self.ctx = ctx
        self.props = props
        if report_as is not None:
            # the same oracles serve another property (C09: no factor of the moving unit missing or duplicated)
            original = ctx.violation
            ctx.violation = lambda prop, oracle, detail, stop=True: original(
                report_as if prop == "C10" else prop, oracle, detail, stop)
        self.infos = None
        self.ids = {}
        self.legs = 0
        self.walker_items = {}
        self.factor_lines = None
        self.per_root = None

    # -- bookkeeping ------------------------------------------------------------------------------------------------
    def on_walker_built(self, walker, args, kwargs, info):
        self.walker_items[id(walker)] = [item for item, rate in info]

    def on_mediator(self, *args):
        ctx = self.ctx
        self.infos = [CellInfo(ctx, s) for s in ctx.internal_states]
        self.infos = [i for i in self.infos if i.is_occupancy]
        filename = ctx.sections.get("FactorTypeMaps", {}).get("filename")
        if filename:
            self.factor_lines = gen.factor_lines(ctx.package_dir, filename)
        self.per_root = ctx.setting.number_of_nodes_per_root_node
        if "C11" in self.props:
            for info in self.infos:
                self._check_occupancy(info, initial=True)
        if "C10" in self.props:
            for info in self.infos:
                self._check_walker_domain(info)

    def on_to_run(self, activator, active_state, preceding, result):
        ctx = self.ctx
        for handler, identifiers in result.items():
            self.ids[handler] = canonical(identifiers)
        if preceding is None:
            return
        self.legs += 1
        if "C11" in self.props:
            for info in self.infos:
                self._check_occupancy(info)
                self._check_active_cell_transition(info)

    def on_trash(self, scheduler, handler):
        self.ids.pop(handler, None)

    # the far family as it really acts: every cell-veto proposal must aim at (active cell of the occupancy + sampled
    # offset) modulo the grid, otherwise a layer of nearby cells is treated twice and a far layer by nobody
    def on_walker_sample(self, walker, name, args, kwargs, result, exc):
        self.last_sampled = result

    def on_send_event_time_begin(self, handler, args):
        if self.ctx.kind(handler) == "cell_veto":
            self.last_sampled = None

    def on_send_event_time_end(self, handler, args, result):
        ctx = self.ctx
        if "C10" not in self.props or ctx.kind(handler) != "cell_veto" or getattr(self, "last_sampled", None) is None:
            return
        tagger = ctx.handler_tagger.get(handler)
        for info in self.infos or []:
            if getattr(tagger, "internal_state", None) is not info.state:
                continue
            actives = list(info.state.yield_active_cells())
            if len(actives) != 1:
                continue
            active_cell = actives[0][0]
            offset = self.last_sampled
            ids = [c.identifier for c in info.cell_list]
            per_side = [max(i[d] for i in ids) + 1 for d in range(len(ids[0]))]
            expected = tuple((a + o) % n for a, o, n in zip(active_cell.identifier, offset.identifier, per_side))
            try:
                target = result[1][0]
            except (TypeError, IndexError):
                return
            if tuple(target.identifier) != expected:
                ctx.violation("C10", "cell_veto_target_is_not_a_far_cell_of_the_active_cell",
                              {"active_cell": active_cell.identifier, "offset": offset.identifier,
                               "target": target.identifier, "expected": expected})
            if target in info.cells.nearby_cells(active_cell):
                ctx.violation("C10", "cell_veto_targets_a_nearby_cell",
                              {"active_cell": active_cell.identifier, "target": target.identifier})
            ctx.probes["c10_cell_veto_targets_checked"] += 1

    def on_get(self, scheduler, handler):
        ctx = self.ctx
        if self.legs < 1:
            return
        if "C10" in self.props:
            for info in self.infos:
                self._check_partition(info)
            self._check_factor_in_states()

    def on_info_internal_state(self, activator, handler, identifier, result):
        if "C10" not in self.props:
            return
        ctx = self.ctx
        tagger = ctx.handler_tagger.get(handler)
        for info in self.infos:
            if getattr(tagger, "internal_state", None) is info.state:
                lengths = box_lengths()
                expected = self._by_position(info, lengths).get(identifier, [])
                surplus = set(info.state.yield_surplus())
                expected = sorted(u for u in expected if u not in surplus)
                if sorted(tuple(r) for r in result) != expected:
                    ctx.violation("C10", "target_lookup_differs_from_cell_content",
                                  {"cell": identifier.identifier, "returned": list(result), "by_position": expected})
                ctx.probes["c10_target_lookups" + ("_nonempty" if result else "_empty")] += 1

    def on_insert_begin(self, state_handler, out_state):
        if "C11" not in self.props:
            return
        ctx = self.ctx
        if ctx.step < 1:
            return
        lengths = box_lengths()
        now = (ctx.now.quotient, ctx.now.remainder)
        for info in self.infos:
            for cell, ident in info.state.yield_active_cells():
                position = advance(ctx.G[ident], now, lengths)
                if not contains(cell, position, lengths, TOL):
                    ctx.violation("C11", "active_unit_outside_recorded_cell_at_event",
                                  {"identifier": ident, "cell": cell.identifier, "position": position,
                                   "cell_min": cell.cell_min, "cell_max": cell.cell_max,
                                   "handler": ctx.current_handler.__class__.__name__})

    def on_insert_end(self, state_handler, out_state):
        if "C11" not in self.props:
            return
        ctx = self.ctx
        handler = ctx.current_handler
        if ctx.kind(handler) != "cell_boundary":
            return
        tagger = ctx.handler_tagger.get(handler)
        for info in self.infos:
            if getattr(tagger, "internal_state", None) is not info.state:
                continue
            for cell, ident in info.state.yield_active_cells():
                velocity = ctx.G[ident][1]
                if velocity is None:
                    ctx.violation("C11", "cell_boundary_event_of_resting_unit", {"identifier": ident})
                candidates = [info.cells.neighbor_cell(cell, d, v > 0.0) for d, v in enumerate(velocity) if v != 0.0]
                info.expected_after_boundary = (ident, cell, candidates)
                ctx.probes["c11_cell_boundary_events"] += 1
                position = ctx.G[ident][0]
                for d, v in enumerate(velocity):
                    if v != 0.0 and (position[d] == 0.0 or cell.identifier[d] != candidates[0].identifier[d] and abs(
                            cell.identifier[d] - candidates[0].identifier[d]) > 1):
                        ctx.probes["c11_crossing_through_periodic_boundary"] += 1
                    if v < 0.0:
                        ctx.probes["c11_crossing_in_negative_direction"] += 1

    # -- C11 ----------------------------------------------------------------------------------------------------------
    def _by_position(self, info, lengths):
        ctx = self.ctx
        active = set(ident for _, ident in info.state.yield_active_cells())
        result = {}
        for ident in info.relevant:
            if ident in active:
                continue
            found = info.cell_of(ctx.G[ident][0], lengths)
            if len(found) != 1:
                if "C11" in self.props:
                    ctx.violation("C11", "position_in_no_or_several_cells",
                                  {"identifier": ident, "position": ctx.G[ident][0],
                                   "cells": [c.identifier for c in found]})
                continue
            result.setdefault(found[0], []).append(ident)
        return result

    def _check_occupancy(self, info, initial=False):
        ctx = self.ctx
        lengths = box_lengths()
        state = info.state
        actives = list(state.yield_active_cells())
        active_ids = [ident for _, ident in actives]
        if not initial:
            moving = [ident for ident in info.relevant if ctx.G[ident][1] is not None]
            if sorted(moving) != sorted(active_ids):
                ctx.violation("C11", "recorded_active_unit_is_not_the_moving_unit",
                              {"recorded": active_ids, "moving": moving})
        surplus = list(state.yield_surplus())
        seen = Counter(surplus)
        by_position = self._by_position(info, lengths)
        surplus_set = set(surplus)
        for cell in info.cell_list:
            occupants = [tuple(i) for i in state[cell]]
            seen.update(occupants)
            if info.limit > 0 and len(occupants) > info.limit:
                ctx.violation("C11", "cell_over_its_occupant_limit",
                              {"cell": cell.identifier, "occupants": occupants, "limit": info.limit})
            here = by_position.get(cell, [])
            for ident in occupants:
                if ident not in here:
                    ctx.violation("C11", "occupant_recorded_in_wrong_cell",
                                  {"identifier": ident, "recorded_cell": cell.identifier,
                                   "position": ctx.G.get(ident, (None,))[0]})
            for ident in here:
                if ident not in occupants:
                    if ident in surplus_set:
                        if info.limit > 0 and len(occupants) < info.limit:
                            # not demanded by the property (the unit is still recorded exactly once): counted only
                            ctx.probes["c11_surplus_unit_in_cell_with_room"] += 1
                        ctx.probes["c11_surplus_sightings"] += 1
                    else:
                        ctx.violation("C11", "unit_missing_from_its_cell",
                                      {"identifier": ident, "cell": cell.identifier, "occupants": occupants})
        expected = Counter(ident for ident in info.relevant if ident not in active_ids)
        if seen != expected:
            ctx.violation("C11", "units_not_recorded_exactly_once",
                          {"missing": list((expected - seen).elements())[:5],
                           "extra_or_active": list((seen - expected).elements())[:5]})
        for cell, ident in actives:
            rec = ctx.G[ident]
            if not contains(cell, rec[0], lengths, 0.0 if initial else TOL):
                ctx.violation("C11", "active_cell_does_not_contain_active_unit",
                              {"identifier": ident, "cell": cell.identifier, "position": rec[0]})
        ctx.probes["c11_occupancy_recounts"] += 1
        if len(by_position) and max(len(v) for v in by_position.values()) > 1:
            ctx.probes["c11_several_units_in_one_cell"] += 1

    def _check_active_cell_transition(self, info):
        ctx = self.ctx
        actives = list(info.state.yield_active_cells())
        current = actives[0] if actives else None
        expected = info.expected_after_boundary
        info.expected_after_boundary = None
        if current is not None and info.last_active is not None:
            cell, ident = current
            last_cell, last_ident = info.last_active
            if expected is not None and expected[0] == ident:
                if cell not in expected[2]:
                    ctx.violation("C11", "not_in_neighbouring_cell_after_cell_boundary_event",
                                  {"identifier": ident, "from": expected[1].identifier, "to": cell.identifier,
                                   "allowed": [c.identifier for c in expected[2]]})
            elif ident == last_ident and cell is not last_cell:
                ctx.violation("C11", "active_cell_changed_without_cell_boundary_event",
                              {"identifier": ident, "from": last_cell.identifier, "to": cell.identifier,
                               "after": ctx.current_handler.__class__.__name__})
            if ident != last_ident:
                ctx.probes["c11_active_unit_changed"] += 1
                if last_ident in set(info.state.yield_surplus()):
                    ctx.probes["c11_previous_active_became_surplus"] += 1
        info.last_active = current

    # -- C10 ----------------------------------------------------------------------------------------------------------
    def _pending_of(self, tagger):
        ctx = self.ctx
        return [self.ids.get(h) for h in ctx.pending if ctx.handler_tagger.get(h) is tagger]

    def _check_partition(self, info):
        ctx = self.ctx
        lengths = box_lengths()
        actives = list(info.state.yield_active_cells())
        if len(actives) != 1:
            return
        active_cell, active = actives[0]
        nearby = info.cells.nearby_cells(active_cell)
        by_position = self._by_position(info, lengths)
        surplus = Counter(tuple(i) for i in info.state.yield_surplus())
        others = Counter(ident for ident in info.relevant if ident != active)
        near_by_position = Counter(u for cell, units in by_position.items() if cell in nearby for u in units)
        far_by_position = Counter(u for cell, units in by_position.items() if cell not in nearby for u in units)

        def targets(tagger, first_only=True):
            result = Counter()
            for ids in self._pending_of(tagger):
                if ids is None or tuple(ids[0]) != tuple(active):
                    ctx.violation("C10", "cell_based_in_state_does_not_start_with_active_unit",
                                  {"tagger": tagger.tag, "in_state": ids, "active": active})
                for target in ids[1:]:
                    result[tuple(target)] += 1
            return result

        far_taggers = info.taggers["veto"] + info.taggers["bounding"]
        for tagger in info.taggers["excluded"]:
            got = targets(tagger)
            expected = near_by_position - surplus
            if got != expected:
                ctx.violation("C10", "nearby_pair_events_differ_from_units_in_nearby_cells",
                              {"tagger": tagger.tag, "missing": list((expected - got).elements())[:5],
                               "extra": list((got - expected).elements())[:5], "active": active})
        for tagger in info.taggers["surplus"]:
            got = targets(tagger)
            if got != surplus:
                ctx.violation("C10", "surplus_pair_events_differ_from_surplus_units",
                              {"tagger": tagger.tag, "missing": list((surplus - got).elements())[:5],
                               "extra": list((got - surplus).elements())[:5], "active": active})
        for tagger in info.taggers["bounding"]:
            got = targets(tagger)
            expected = far_by_position - surplus
            if got != expected:
                ctx.violation("C10", "cell_bounding_events_differ_from_units_in_far_cells",
                              {"tagger": tagger.tag, "missing": list((expected - got).elements())[:5],
                               "extra": list((got - expected).elements())[:5], "active": active})
        # coverage decided by positions only (independent of which units the occupancy calls surplus): every unit
        # located in a nearby cell is the target of exactly one explicit pair event; with a far family present every
        # unit in a far cell is treated exactly once by an explicit surplus event or by the far family
        if info.taggers["excluded"]:
            explicit = targets(info.taggers["excluded"][0])
            if info.taggers["surplus"]:
                explicit = explicit + targets(info.taggers["surplus"][0])
            for unit in near_by_position:
                if explicit[unit] != 1:
                    ctx.violation("C10", "unit_in_nearby_cell_missed" if explicit[unit] == 0
                                  else "unit_in_nearby_cell_treated_twice",
                                  {"unit": unit, "active": active, "times": explicit[unit],
                                   "recorded_as_surplus": unit in surplus})
            if far_taggers:
                far_live = Counter(tuple(u) for cell in info.cell_list if cell not in nearby
                                   for u in info.state[cell])
                for unit in far_by_position:
                    if explicit[unit] + far_live[unit] != 1:
                        ctx.violation("C10", "unit_in_far_cell_not_treated_exactly_once",
                                      {"unit": unit, "active": active, "explicit": explicit[unit],
                                       "far": far_live[unit]})
            ctx.probes["c10_position_coverage_checks"] += 1
        for tagger in info.taggers["veto"]:
            pend = self._pending_of(tagger)
            if len(pend) != 1 or tuple(pend[0][0]) != tuple(active):
                ctx.violation("C10", "cell_veto_event_missing_or_not_for_active_unit",
                              {"tagger": tagger.tag, "pending": pend, "active": active})
        if far_taggers and info.taggers["excluded"]:
            # the three families together: nobody missed, nobody twice
            far = Counter(tuple(u) for cell in info.cell_list if cell not in nearby for u in info.state[cell])
            total = targets(info.taggers["excluded"][0]) + far
            if info.taggers["surplus"]:
                total = total + targets(info.taggers["surplus"][0])
            elif surplus:
                ctx.violation("C10", "surplus_units_without_surplus_events", {"surplus": list(surplus)})
            if total != others:
                ctx.violation("C10", "partners_not_covered_exactly_once",
                              {"missing": list((others - total).elements())[:5],
                               "twice": list((total - others).elements())[:5], "active": active})
            ctx.probes["c10_partitions_checked"] += 1
            if surplus:
                ctx.probes["c10_partitions_with_surplus"] += 1
            if len(near_by_position) > 0:
                ctx.probes["c10_partitions_with_nearby_units"] += 1

    def _check_walker_domain(self, info):
        """The domain of the cell-veto walker, translated to every cell, is exactly the set of non-nearby cells."""
        ctx = self.ctx
        if not info.taggers["veto"] or not self.walker_items:
            return
        cells = info.cells
        zero = cells.zero_cell
        far_of_zero = [c for c in info.cell_list if c not in cells.nearby_cells(zero)]
        for items in self.walker_items.values():
            if len(items) and all(hasattr(i, "cell_min") for i in items):
                if items and items[0] not in info.cell_list:
                    continue
                if Counter(id(c) for c in items) != Counter(id(c) for c in far_of_zero):
                    ctx.violation("C10", "walker_domain_is_not_the_set_of_far_cells",
                                  {"domain": sorted(c.identifier for c in items)[:10],
                                   "far": sorted(c.identifier for c in far_of_zero)[:10]})
        for cell in info.cell_list:
            translated = Counter(id(cells.translate(cell, rel)) for rel in far_of_zero)
            expected = Counter(id(c) for c in info.cell_list if c not in cells.nearby_cells(cell))
            if translated != expected:
                ctx.violation("C10", "translated_walker_domain_differs_from_far_cells", {"cell": cell.identifier})
        ctx.probes["c10_walker_domains_checked"] += 1

    def _check_factor_in_states(self):
        ctx = self.ctx
        if self.factor_lines is None:
            return
        n_roots = ctx.setting.number_of_root_nodes
        per_root = self.per_root
        G = ctx.G
        leaves = [ident for ident, kids in ctx.children.items() if not kids]
        active_leaves = [ident for ident in leaves if G[ident][1] is not None]
        for tagger in ctx.taggers:
            if "FactorTypeMapInStateTagger" not in base_names(type(tagger)):
                continue
            options = ctx.sections.get(camel(tagger.tag), {})
            label = camel(options.get("factor_type_maps_label", tagger.tag))
            mine = [indices for indices, name in self.factor_lines if name == label]
            expected = set()
            for active in active_leaves:
                if per_root == 1:
                    for other in range(n_roots):
                        if (other,) != active:
                            expected.add((active, (other,)))
                    continue
                root, index = active
                if not mine:
                    for other in range(n_roots):
                        if other != root:
                            for leaf in range(per_root):
                                expected.add((active, (other, leaf)))
                    continue
                for indices in mine:
                    if index not in indices:
                        continue
                    if all(i < per_root for i in indices):
                        expected.add(tuple((root, i) for i in indices))
                    else:
                        for other in range(n_roots):
                            if other != root:
                                expected.add(tuple((root, i) if i < per_root else (other, i - per_root)
                                                   for i in indices))
            pending = [ids for ids in self._pending_of(tagger)]
            fresh = [canonical(i) for i in tagger.yield_identifiers_send_event_time(
                ctx.state_handler.extract_active_global_state())]
            if fresh and Counter(fresh) != Counter(expected):
                ctx.violation("C10", "factor_in_states_differ_from_factor_file",
                              {"tagger": tagger.tag, "missing": sorted(expected - set(fresh))[:5],
                               "extra": sorted(set(fresh) - expected)[:5],
                               "duplicates": [k for k, v in Counter(fresh).items() if v > 1][:5]})
            if pending and fresh and Counter(pending) != Counter(expected):
                ctx.violation("C10", "pending_factor_events_differ_from_factor_file",
                              {"tagger": tagger.tag, "missing": sorted(expected - set(pending))[:5],
                               "extra": sorted(set(pending) - expected)[:5]})
            if fresh:
                ctx.probes["c10_factor_in_state_checks"] += 1
