"""C04: thinning is sound -- the claimed bound dominates, a proposed event is confirmed exactly when the confirmation
draw lies below the true rate, and an unconfirmed event changes no velocity (DESIGN.md section 4, C04)."""
import configparser
import math
import re

from ..seams import Monitor
from ..runsim import walk_cnodes, unit_record
from ..scenario import camel
from .. import refenergy

CONFIRMATION_SITES = ("send_out_state", "_calculate_out_state_of_two_leaf_unit_bounding_potential")
CLAIMED_BOUND = "inverse_power_coulomb_bounding_potential"


def parse_reference(value):
    m = re.match(r"\s*(\w+)\s*(?:\((\w+)\))?", value)
    alias, cls = m.group(1), m.group(2) or m.group(1)
    return alias, cls


class HandlerInfo(object):
    """Configuration of one event handler as written in the .ini file, and separately constructed potentials."""

    def __init__(self, ctx, handler):
        import jellyfysh.base.factory as factory
        sections = ctx.sections
        self.section = refenergy.alias_section(handler)
        options = sections.get(self.section, {})
        self.names = refenergy.base_names(handler)
        self.charge = options.get("charge")
        self.supported = False
        self.claimed = False
        self.root_mode = False
        self.potential = self.bound = None
        pot_ref = options.get("potential")
        if pot_ref is None and "estimator" in options:
            est_alias, _ = parse_reference(options["estimator"])
            pot_ref = sections.get(camel(est_alias), {}).get("potential")
        if pot_ref is None:
            return
        if any(n in self.names for n in ("FixedSeparationsEventHandlerWithPiecewiseConstantBoundingPotential",
                                         "RootUnitActiveTwoLeafUnitEventHandler")):
            return
        # a composite object that moves as a whole: every one of its leaf units is active, the rates are sums over
        # all pairs of leaf units of the two composite objects
        self.root_mode = "RootUnitActiveTwoCompositeObjectSummedBoundingPotentialEventHandler" in self.names
        if not any("BoundingPotential" in n or "CellVeto" in n for n in self.names):
            return
        config = configparser.ConfigParser()
        for name, opts in sections.items():
            config.add_section(name)
            for k, v in opts.items():
                config.set(name, k, v)
        used = list(factory.used_sections)
        try:
            alias, cls = parse_reference(pot_ref)
            self.potential = factory.build_from_config(config, camel(alias), "jellyfysh.potential", camel(cls))
            bound_ref = options.get("bounding_potential")
            if bound_ref is not None:
                b_alias, b_cls = parse_reference(bound_ref)
                if b_cls == CLAIMED_BOUND and cls == "merged_image_coulomb_potential":
                    self.bound = factory.build_from_config(config, camel(b_alias), "jellyfysh.potential",
                                                           camel(b_cls))
                    self.claimed = True
            self.supported = self.potential.number_separation_arguments == 1
            self.number_charges = self.potential.number_charge_arguments
        finally:
            factory.used_sections[:] = used

    def charges(self, ctx, a, b):
        if self.charge is None:
            return tuple(1.0 for _ in range(self.number_charges))
        return (ctx.charges[a][self.charge], ctx.charges[b][self.charge])


def nearest_image(a, b):
    import jellyfysh.setting.hypercuboid_setting as hc
    out = []
    for d, length in enumerate(hc.system_lengths):
        out.append((b[d] - a[d] + length / 2.0) % length - length / 2.0)
    return out


class Thinning(Monitor):
    name = "C04"

    def __init__(self, ctx):
        self.ctx = ctx
        self.infos = {}
        self.current = None
        self.draw = None
        self.instate = {}
        self.rejected_handler = None
        self.in_event_time = None
        self.drawn_from = {}
        import random
        self.rng = random.Random(ctx.scenario["seed"] ^ 0xC04)
        # rare inputs: a random subset of the confirmation draws is forced close to 0 or close to the bound
        self.force_rate = self.rng.choice([0.0, 0.05, 0.2])
        from ..seams import FACADE
        FACADE.override = self.override

    def override(self, kind, args, site, u):
        if kind != "uniform" or self.current is None or not site.endswith(CONFIRMATION_SITES):
            return None
        if self.force_rate == 0.0 or self.rng.random() >= self.force_rate:
            return None
        self.ctx.probes["c04_forced_confirmation_draw"] += 1
        if self.rng.random() < 0.5:
            return 10.0 ** self.rng.uniform(-15.0, -3.0)
        return 1.0 - 10.0 ** self.rng.uniform(-15.0, -3.0)

    def info(self, handler):
        key = type(handler)
        if key not in self.infos:
            self.infos[key] = HandlerInfo(self.ctx, handler)
        return self.infos[key]

    # -- domination at every separation a run visits -----------------------------------------------------------------
    def on_send_event_time_begin(self, handler, args):
        self.in_event_time = handler
        self.drawn_from.pop(handler, None)
        if not args:
            return
        info = self.info(handler)
        records = [unit_record(c.value) + (not c.children,) for c in walk_cnodes(args[0])]
        self.instate[handler] = records
        if not info.claimed:
            return
        self._check_domination(info, records, "send_event_time")

    def _pairs(self, info, records):
        leaves = [r for r in records if r[4]]
        active = [r for r in leaves if r[2] is not None]
        if info.root_mode:
            if not active or len(set(r[0][:1] for r in active)) != 1 or len(set(map(tuple, (r[2] for r in active)))) != 1:
                return None, []
            return active, [r for r in leaves if r[0][:1] != active[0][0][:1]]
        if len(active) != 1:
            return None, []
        active = active[0]
        if len(active[0]) == 1:
            targets = [r for r in leaves if r[0] != active[0]]
        else:
            targets = [r for r in leaves if r[0][:1] != active[0][:1]]
        return active, targets

    def _check_domination(self, info, records, where):
        ctx = self.ctx
        actives, targets = self._pairs(info, records)
        if actives is None:
            return
        if not info.root_mode:
            actives = [actives]
        for active, target in ((a, t) for a in actives for t in targets):
            separation = nearest_image(active[1], target[1])
            charges = info.charges(ctx, active[0], target[0])
            true = info.potential.derivative(list(active[2]), separation, *charges)
            bound = info.bound.derivative(list(active[2]), separation, *charges)
            ctx.probes["c04_domination_checks"] += 1
            if true > 0.0:
                ctx.probes["c04_domination_checks_positive_rate"] += 1
                ratio = true / bound if bound > 0.0 else math.inf
                if ratio > ctx.notes.get("c04_largest_true_over_bound", 0.0):
                    ctx.notes["c04_largest_true_over_bound"] = ratio
                if not bound > 0.0 or bound < true * (1.0 - 1e-12):
                    ctx.violation("C04", "bound_below_true_rate",
                                  {"where": where, "separation": separation, "charges": charges, "true": true,
                                   "bound": bound, "velocity": list(active[2])})

    # -- the rate a cell-bounded candidate was drawn from -------------------------------------------------------------
    def on_potential_call(self, potential, name, args, kwargs, result, exc):
        handler = self.in_event_time
        if handler is None or exc is not None or name != "displacement" \
                or type(potential).__name__ != "CellBoundingPotential" or kwargs:
            return
        # constant rate inside the cell: time displacement = potential change / (rate * speed)
        change = args[-1]
        self.drawn_from[handler] = (change / result) if (result > 0.0 and result != math.inf and change > 0.0) else None

    def on_send_event_time_end(self, handler, args, result):
        self.in_event_time = None

    # -- exact acceptance -----------------------------------------------------------------------------------------------
    def on_send_out_state_begin(self, handler, args):
        self.current = handler
        self.draw = None
        self.extra = [unit_record(c.value) + (not c.children,) for a in args if a is not None and hasattr(a, "value")
                      for c in walk_cnodes([a])]
        self.target_missing = bool(args) and all(a is None for a in args)

    def on_draw(self, kind, args, site, u, value):
        if self.current is not None and kind == "uniform" and self.draw is None and site is not None \
                and site.endswith(CONFIRMATION_SITES):
            self.draw = (args[1], value)

    def on_bounding_warning(self, name, bounding, real):
        handler = self.current
        if handler is None:
            return
        info = self.info(handler)
        if info.claimed and real > 0.0 and bounding < real:
            self.ctx.violation("C04", "bounding_potential_warning_for_claimed_bound",
                               {"handler": name, "bounding": bounding, "real": real})

    def on_send_out_state_end(self, handler, args, result):
        ctx = self.ctx
        self.current = None
        info = self.info(handler)
        draw, self.draw = self.draw, None
        if not info.supported or result is None:
            return
        before = self.instate.get(handler)
        if before is None:
            return
        actives, _ = self._pairs(info, before)
        if actives is None:
            return
        if not info.root_mode:
            actives = [actives]
        active = actives[0]
        after = {}
        for c in walk_cnodes(result):
            rec = unit_record(c.value)
            after[rec[0]] = rec + (not c.children,)
        if any(a[0] not in after for a in actives):
            return
        accepted = after[active[0]][2] is None
        records = list(after.values())
        # true rate at the event configuration, from a separately constructed potential
        active_ids = set(a[0] for a in actives)
        leaves = [r for r in records if r[4] and r[0] not in active_ids]
        if len(active[0]) == 1:
            targets = leaves
        else:
            targets = [r for r in leaves if r[0][:1] != active[0][:1]]
        velocity = list(active[2])
        q = 0.0
        b_claimed = 0.0
        for one in actives:
            position = after[one[0]][1]
            for target in targets:
                separation = nearest_image(position, target[1])
                charges = info.charges(ctx, one[0], target[0])
                true_pair = info.potential.derivative(velocity, separation, *charges)
                q += true_pair
                if info.claimed:
                    bound_pair = info.bound.derivative(velocity, separation, *charges)
                    b_claimed += max(0.0, bound_pair)
                    if info.root_mode and true_pair > 0.0:
                        ctx.probes["c04_domination_checks"] += 1
                        ctx.probes["c04_domination_checks_positive_rate"] += 1
                        if not bound_pair > 0.0 or bound_pair < true_pair * (1.0 - 1e-12):
                            ctx.violation("C04", "bound_below_true_rate",
                                          {"where": "confirmation (pair of leaf units)", "separation": separation,
                                           "charges": charges, "true": true_pair, "bound": bound_pair,
                                           "velocity": velocity})
        if info.root_mode:
            ctx.probes["c04_root_mode_events"] += 1
        q = max(0.0, q)
        self.rejected_handler = None
        if draw is None:
            # no confirmation draw: nothing may have been handed over
            if accepted:
                ctx.violation("C04", "velocity_handed_over_without_confirmation_draw",
                              {"handler": handler.__class__.__name__})
            if targets:
                ctx.probes["c04_proposals_without_draw"] += 1
                self.rejected_handler = handler
            return
        bound, x = draw
        ctx.probes["c04_confirmation_decisions"] += 1
        drawn_from = self.drawn_from.get(handler)
        if drawn_from is not None:
            # cell bounding potential: the confirmation must use the very rate the candidate time was drawn from
            ctx.probes["c04_cell_bounded_rate_checks"] += 1
            if abs(bound - drawn_from) > 1e-9 * max(bound, drawn_from):
                ctx.violation("C04", "confirmation_not_against_the_rate_the_candidate_was_drawn_from",
                              {"handler": handler.__class__.__name__, "upper_limit": bound,
                               "rate_of_the_candidate": drawn_from})
        if info.claimed:
            if abs(bound - b_claimed) > 1e-9 * max(bound, b_claimed):
                ctx.violation("C04", "confirmation_draw_not_scaled_by_the_bound",
                              {"upper_limit": bound, "bound_at_event": b_claimed})
            if bound < q * (1.0 - 1e-12):
                ctx.violation("C04", "bound_below_true_rate", {"where": "confirmation", "true": q, "bound": bound})
        if abs(x - q) <= 1e-9 * max(bound, q):
            ctx.probes["c04_decisions_inside_tolerance_band"] += 1
            return
        expected = x < q
        if accepted != expected:
            ctx.violation("C04", "confirmation_decision_differs_from_draw_below_true_rate",
                          {"handler": handler.__class__.__name__, "draw": x, "upper_limit": bound, "true_rate": q,
                           "accepted": accepted})
        ctx.probes["c04_accepted" if accepted else "c04_rejected"] += 1
        if not accepted:
            self.rejected_handler = handler

    def on_insert_end(self, state_handler, out_state):
        ctx = self.ctx
        if self.rejected_handler is not None and self.rejected_handler is ctx.current_handler:
            for ident, rec in ctx.G.items():
                if rec[1] != ctx.G_prev[ident][1]:
                    ctx.violation("C04", "unconfirmed_event_changed_a_velocity",
                                  {"identifier": ident, "before": ctx.G_prev[ident][1], "after": rec[1],
                                   "handler": ctx.current_handler.__class__.__name__})
            ctx.probes["c04_unconfirmed_commits_checked"] += 1
        self.rejected_handler = None
