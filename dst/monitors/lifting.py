"""C05: lifting schemes route the probability flow so that every unit's outflow is matched (DESIGN.md section 4, C05).

In-run: the selected unit has a negative derivative and depends on nothing but the table and the draws.  At the choice
point: for a sample of the tables real event handlers build, every unit with positive derivative is taken as the
active one on a fresh instance of the same scheme and the forced uniform variate is swept over (0, 1); the exact
measure of draws selecting each unit gives the flow balance."""
import math

from ..seams import Monitor, FACADE


class Table(object):
    def __init__(self):
        self.rows = []          # (rate, identifier, is_active)
        self.draws = []         # uniform variates consumed since reset (u in [0, 1))


_BUSY = [0]


def run_scheme(cls, rows, active_index, variates):
    """Fill a fresh instance of the scheme through its public interface with the given uniform variates forced."""
    _BUSY[0] += 1
    try:
        return _run_scheme(cls, rows, active_index, variates)
    finally:
        _BUSY[0] -= 1


def _run_scheme(cls, rows, active_index, variates):
    scheme = cls()
    queue = list(variates)
    saved = FACADE.override
    consumed = [0]

    def forced(kind, args, site, u):
        consumed[0] += 1
        if queue:
            return queue.pop(0)
        return 0.5
    FACADE.override = forced
    try:
        scheme.reset()
        for index, (rate, identifier, _) in enumerate(rows):
            scheme.insert(rate, identifier, index == active_index)
        return scheme.get_active_identifier(), consumed[0]
    finally:
        FACADE.override = saved


def selection_measure(cls, rows, active_index, n_draws, swept, fixed=0.37, grid=512):
    """Exact measure of the swept variate in (0, 1) selecting each identifier (piecewise constant selection)."""
    def select(u):
        variates = [fixed] * n_draws
        variates[swept] = u
        return run_scheme(cls, rows, active_index, variates)[0]

    rates = [abs(r[0]) for r in rows]
    q_active = rows[active_index][0]
    points = set(i / grid for i in range(1, grid))
    # extra sample points where sensible schemes may switch: cumulative sums of the rates in both orders
    positives = [r[0] for r in rows if r[0] > 0.0]
    negatives = [-r[0] for r in rows if r[0] <= 0.0]
    total = sum(negatives) or 1.0
    for seq in (positives, negatives, list(reversed(positives)), list(reversed(negatives))):
        acc = 0.0
        for value in seq:
            acc += value
            for base in (acc, total - acc, sum(positives) - acc):
                for scale in (q_active, total):
                    if scale <= 0.0:
                        continue
                    x = base / scale
                    for y in (x, x - math.floor(x)):
                        for eps in (-1e-9, 1e-9):
                            if 0.0 < y + eps < 1.0:
                                points.add(y + eps)
    points = sorted(points)
    values = [select(u) for u in points]
    measure = {}
    lo_u, lo_v = 0.0, values[0]
    edges = []
    for u, v in zip(points, values):
        edges.append((u, v))
    # bisect between neighbours with different outcomes
    boundaries = [(0.0, values[0])]
    for (u0, v0), (u1, v1) in zip(edges, edges[1:]):
        if v0 == v1:
            continue
        a, b, va, vb = u0, u1, v0, v1
        inner = []
        # there may be more than one switch inside: refine recursively
        stack = [(a, b, va, vb)]
        while stack:
            a, b, va, vb = stack.pop()
            if va == vb:
                continue
            if b - a < 1e-15:
                inner.append((b, vb))
                continue
            mid = 0.5 * (a + b)
            vm = select(mid)
            stack.append((mid, b, vm, vb))
            stack.append((a, mid, va, vm))
        inner.sort()
        boundaries.extend(inner)
    boundaries.sort()
    for (u, v), nxt in zip(boundaries, boundaries[1:] + [(1.0, None)]):
        measure[v] = measure.get(v, 0.0) + (nxt[0] - u)
    return measure, len(points)


class Lifting(Monitor):
    name = "C05"

    def __init__(self, ctx, explore_every=25, max_explorations=12):
        self.ctx = ctx
        self.tables = {}
        self.explore_every = explore_every
        self.max_explorations = max_explorations
        self.decisions = 0
        self.explored = 0
        self.current = None

    def on_lifting_call(self, lifting, name, args, kwargs, result, exc):
        if _BUSY[0]:
            return      # the harness itself is driving a fresh scheme object
        ctx = self.ctx
        key = id(lifting)
        if exc is not None:
            ctx.violation("C05", "lifting_raised", {"scheme": lifting.__class__.__name__, "method": name,
                                                    "error": repr(exc)[:300]})
        if name == "reset":
            self.tables[key] = Table()
            return
        table = self.tables.setdefault(key, Table())
        if name == "insert":
            rate = args[0] if args else kwargs["lifting_rate"]
            identifier = args[1] if len(args) > 1 else kwargs["associated_identifier"]
            is_active = args[2] if len(args) > 2 else kwargs["is_active"]
            table.rows.append((rate, tuple(identifier) if isinstance(identifier, (list, tuple)) else identifier,
                               bool(is_active)))
            return
        if name != "get_active_identifier":
            return
        self.decisions += 1
        rows = table.rows
        selected = tuple(result) if isinstance(result, (list, tuple)) else result
        rates = {r[1]: r[0] for r in rows}
        if selected not in rates:
            ctx.violation("C05", "selected_unit_not_in_table", {"selected": selected, "table": rows})
        if not rates[selected] < 0.0:
            ctx.violation("C05", "selected_unit_has_non_negative_derivative",
                          {"selected": selected, "derivative": rates[selected], "table": rows,
                           "scheme": lifting.__class__.__name__})
        actives = [i for i, r in enumerate(rows) if r[2]]
        if len(actives) != 1:
            ctx.violation("C05", "table_without_exactly_one_active_unit", {"table": rows})
        # the choice depends on nothing but the table and the draws: a fresh instance with the same draws agrees
        cls = type(lifting)
        again, consumed = run_scheme(cls, rows, actives[0], table.draws)
        if again != selected or consumed != len(table.draws):
            ctx.violation("C05", "choice_depends_on_more_than_table_and_draws",
                          {"selected": selected, "fresh_instance": again, "draws": table.draws, "table": rows,
                           "draws_consumed_by_fresh_instance": consumed})
        ctx.probes["c05_decisions_checked"] += 1
        ctx.probes["c05_scheme_" + cls.__name__.split(" ")[0]] += 1
        ctx.probes["c05_table_size_%d" % len(rows)] += 1
        if any(r[0] == 0.0 for r in rows):
            ctx.probes["c05_table_with_exact_zero"] += 1
        if self.decisions % self.explore_every == 1 and self.explored < self.max_explorations:
            self.explored += 1
            self._explore(cls, rows, len(table.draws))

    def on_draw(self, kind, args, site, u, value):
        if _BUSY[0] or kind != "uniform" or site is None or "Lifting" not in site.split(".")[0]:
            return
        self._route_draw(u, site)

    def _route_draw(self, u, site):
        # draws are attributed through the call stack: the lifting wrapper is on the stack while it draws
        import sys
        frame = sys._getframe(2)
        depth = 0
        while frame is not None and depth < 12:
            obj = frame.f_locals.get("self")
            if obj is not None and id(obj) in self.tables:
                self.tables[id(obj)].draws.append(u)
                return
            frame = frame.f_back
            depth += 1

    def _explore(self, cls, rows, n_draws):
        ctx = self.ctx
        if n_draws == 0:
            return
        total_abs = sum(abs(r[0]) for r in rows)
        residual = abs(sum(r[0] for r in rows))
        if total_abs == 0.0:
            return
        inflow = {}
        evaluations = 0
        positives = [i for i, r in enumerate(rows) if r[0] > 0.0]
        for i in positives:
            # which of the draws matters is found out by sweeping each; a draw that never changes the outcome has a
            # single-interval measure
            chosen = None
            for swept in range(n_draws - 1, -1, -1):
                measure, n = selection_measure(cls, rows, i, n_draws, swept)
                evaluations += n
                if len(measure) > 1 or swept == 0:
                    chosen = measure
                    if len(measure) > 1:
                        # selection must not depend on the other draws
                        for other in (0.11, 0.83):
                            again, n2 = selection_measure(cls, rows, i, n_draws, swept, fixed=other, grid=64)
                            evaluations += n2
                            for k in set(measure) | set(again):
                                if abs(measure.get(k, 0.0) - again.get(k, 0.0)) > 1e-9:
                                    ctx.probes["c05_selection_depends_on_two_draws"] += 1
                    break
            for k, m in chosen.items():
                inflow[k] = inflow.get(k, 0.0) + rows[i][0] * m
        tol = 1e-9 * total_abs + residual * (1.0 + 1e-9)
        for rate, identifier, _ in rows:
            if rate > 0.0:
                if inflow.get(identifier, 0.0) > tol:
                    ctx.violation("C05", "flow_into_unit_with_positive_derivative",
                                  {"unit": identifier, "inflow": inflow.get(identifier), "table": rows,
                                   "scheme": cls.__name__})
                continue
            if abs(inflow.get(identifier, 0.0) - (-rate)) > tol:
                ctx.violation("C05", "lifted_flow_not_balanced",
                              {"unit": identifier, "inflow": inflow.get(identifier, 0.0), "outflow": -rate,
                               "tolerance": tol, "table": rows, "scheme": cls.__name__})
            worst = abs(inflow.get(identifier, 0.0) + rate) / total_abs
            if worst > ctx.notes.get("c05_largest_relative_imbalance", 0.0):
                ctx.notes["c05_largest_relative_imbalance"] = worst
        ctx.probes["c05_tables_explored"] += 1
        ctx.probes["c05_forced_scheme_evaluations"] += evaluations
