"""C05: lifting schemes route the probability flow so that every unit's outflow is matched (DESIGN.md section 4, C05).

In-run: the selected unit has a negative derivative and depends on nothing but the table and the draws.  At the choice
point: for a sample of the tables real event handlers build, every unit with positive derivative is taken as the
active one on a fresh instance of the same scheme and the forced uniform variate is swept over (0, 1); the exact
measure of draws selecting each unit gives the flow balance."""
import math

from ..seams import Monitor, FACADE


class Table(object):
    def __init__(self):
        self.rows = []          # (rate, identifier, is_active)
        self.draws = []         # uniform variates consumed since reset (u in [0, 1))


_BUSY = [0]


def run_scheme(cls, rows, active_index, variates):
    """Fill a fresh instance of the scheme through its public interface with the given uniform variates forced."""
    _BUSY[0] += 1
    try:
        return _run_scheme(cls, rows, active_index, variates)
    finally:
        _BUSY[0] -= 1


def _run_scheme(cls, rows, active_index, variates):
    scheme = cls()
    queue = list(variates)
    saved = FACADE.override
    consumed = [0]

    def forced(kind, args, site, u):
        consumed[0] += 1
        if queue:
            return queue.pop(0)
        return 0.5
    FACADE.override = forced
    try:
        scheme.reset()
        for index, (rate, identifier, _) in enumerate(rows):
            scheme.insert(rate, identifier, index == active_index)
        return scheme.get_active_identifier(), consumed[0]
    finally:
        FACADE.override = saved


def selection_measure(cls, rows, active_index, n_draws, swept, fixed=0.37, grid=512):
    """Exact measure of the swept variate in (0, 1) selecting each identifier (piecewise constant selection)."""
    def select(u):
        variates = [fixed] * n_draws
        variates[swept] = u
        return run_scheme(cls, rows, active_index, variates)[0]

    rates = [abs(r[0]) for r in rows]
    q_active = rows[active_index][0]
    points = set(i / grid for i in range(1, grid))
    # extra sample points where sensible schemes may switch: cumulative sums of the rates in both orders
    positives = [r[0] for r in rows if r[0] > 0.0]
    negatives = [-r[0] for r in rows if r[0] <= 0.0]
    total = sum(negatives) or 1.0
    for seq in (positives, negatives, list(reversed(positives)), list(reversed(negatives))):
        acc = 0.0
        for value in seq:
            acc += value
            for base in (acc, total - acc, sum(positives) - acc):
                for scale in (q_active, total):
                    if scale <= 0.0:
                        continue
                    x = base / scale
                    for y in (x, x - math.floor(x)):
                        for eps in (-1e-9, 1e-9):
                            if 0.0 < y + eps < 1.0:
                                points.add(y + eps)
    points = sorted(points)
    values = [select(u) for u in points]
    measure = {}
    lo_u, lo_v = 0.0, values[0]
    edges = []
    for u, v in zip(points, values):
        edges.append((u, v))
    # bisect between neighbours with different outcomes
    boundaries = [(0.0, values[0])]
    for (u0, v0), (u1, v1) in zip(edges, edges[1:]):
        if v0 == v1:
            continue
        a, b, va, vb = u0, u1, v0, v1
        inner = []
        # there may be more than one switch inside: refine recursively
        stack = [(a, b, va, vb)]
        while stack:
            a, b, va, vb = stack.pop()
            if va == vb:
                continue
            if b - a < 1e-15:
                inner.append((b, vb))
                continue
            mid = 0.5 * (a + b)
            vm = select(mid)
            stack.append((mid, b, vm, vb))
            stack.append((a, mid, va, vm))
        inner.sort()
        boundaries.extend(inner)
    boundaries.sort()
    for (u, v), nxt in zip(boundaries, boundaries[1:] + [(1.0, None)]):
        measure[v] = measure.get(v, 0.0) + (nxt[0] - u)
    return measure, len(points)


class _Capture(Monitor):
    """Records the table a handler fills while the harness drives a copy of it (the only monitor attached then)."""
    name = "capture"

    def __init__(self):
        self.rows = None
        self.asked = False

    def on_lifting_call(self, lifting, name, args, kwargs, result, exc):
        if name == "reset":
            self.rows = []
        elif name == "insert" and self.rows is not None:
            rate = args[0] if args else kwargs["lifting_rate"]
            identifier = args[1] if len(args) > 1 else kwargs["associated_identifier"]
            is_active = args[2] if len(args) > 2 else kwargs["is_active"]
            self.rows.append((rate, tuple(identifier) if isinstance(identifier, (list, tuple)) else identifier,
                              bool(is_active)))
        elif name == "get_active_identifier":
            self.asked = True


def _leaves(branches):
    out, stack = [], list(branches)
    while stack:
        node = stack.pop()
        if node.children:
            stack.extend(node.children)
        else:
            out.append(node)
    return out


def _root_of(node):
    while node.parent is not None:
        node = node.parent
    return node


def _move_activity(branches, target_identifier):
    """Same configuration, another leaf unit active (velocity and time stamp moved; every inner node on the way to
    the leaf carries the velocity of its centre, as the tree state handler keeps it)."""
    leaves = _leaves(branches)
    active = [c for c in leaves if c.value.velocity is not None]
    target = [c for c in leaves if tuple(c.value.identifier) == tuple(target_identifier)]
    if len(active) != 1 or len(target) != 1 or target[0] is active[0]:
        return False
    active, target = active[0], target[0]
    velocity, stamp = active.value.velocity, active.value.time_stamp
    # inner nodes: take the velocity off the old path, put it on the new one
    node = active.parent
    while node is not None:
        node.value.velocity = None
        node.value.time_stamp = None
        node = node.parent
    active.value.velocity = None
    active.value.time_stamp = None
    target.value.velocity = list(velocity)
    target.value.time_stamp = stamp
    node = target.parent
    while node is not None:
        n_leaves = len(_leaves([node]))
        node.value.velocity = [component / n_leaves for component in velocity]
        node.value.time_stamp = stamp
        node = node.parent
    return True


def tables_of_real_handler(handler, rows):
    """For every unit with a positive derivative: the table (in insertion order) that a copy of the real event handler
    fills when that unit is the active one in the same configuration.  The copy is driven through its public
    methods with forced draws (a candidate after a displacement of about 1e-10, confirmation certain)."""
    import copy
    import inspect
    from ..seams import HUB
    try:
        if len(inspect.signature(type(handler).send_out_state).parameters) != 1 or len(
                inspect.signature(type(handler).send_event_time).parameters) != 2:
            return None
        state = handler._state
        leaves = _leaves(state)
    except Exception:
        return None
    if sum(1 for c in leaves if c.value.velocity is not None) != 1:
        return None
    result = {}
    saved_monitors = HUB.monitors
    saved_override = FACADE.override
    saved_stream = FACADE.getstate()
    saved_count = FACADE.count

    def forced(kind, args, site, u):
        if kind == "expovariate":
            return 1e-10
        if kind == "uniform":
            return 0.5 if site and "Lifting" in site.split(".")[0] else 0.0
        return None

    _BUSY[0] += 1
    try:
        for index, (rate, identifier, is_active) in enumerate(rows):
            if not rate > 0.0:
                continue
            if is_active:
                result[index] = list(rows)
                continue
            capture = _Capture()
            try:
                clone = copy.deepcopy(handler)
                branches = clone._state
                if not _move_activity(branches, identifier):
                    return None
                HUB.attach([capture])
                FACADE.override = forced
                clone.send_event_time(branches)
                clone.send_out_state()
            except Exception:
                return None
            finally:
                HUB.attach(saved_monitors)
                FACADE.override = saved_override
            if not capture.asked or not capture.rows:
                return None
            result[index] = capture.rows
    finally:
        _BUSY[0] -= 1
        FACADE.setstate(saved_stream)
        FACADE.count = saved_count
    return result


def _handler_on_stack(lifting):
    import sys
    frame = sys._getframe(2)
    depth = 0
    while frame is not None and depth < 14:
        obj = frame.f_locals.get("self")
        if obj is not None and obj is not lifting and getattr(obj, "_lifting", None) is lifting:
            return obj
        frame = frame.f_back
        depth += 1
    return None


class Lifting(Monitor):
    name = "C05"

    def __init__(self, ctx, explore_every=25, max_explorations=12):
        self.ctx = ctx
        self.tables = {}
        self.explore_every = explore_every
        self.max_explorations = max_explorations
        self.decisions = 0
        self.explored = 0
        self.current = None

    def on_lifting_call(self, lifting, name, args, kwargs, result, exc):
        if _BUSY[0]:
            return      # the harness itself is driving a fresh scheme object
        ctx = self.ctx
        key = id(lifting)
        if exc is not None:
            ctx.violation("C05", "lifting_raised", {"scheme": lifting.__class__.__name__, "method": name,
                                                    "error": repr(exc)[:300]})
        if name == "reset":
            self.tables[key] = Table()
            return
        table = self.tables.setdefault(key, Table())
        if name == "insert":
            rate = args[0] if args else kwargs["lifting_rate"]
            identifier = args[1] if len(args) > 1 else kwargs["associated_identifier"]
            is_active = args[2] if len(args) > 2 else kwargs["is_active"]
            table.rows.append((rate, tuple(identifier) if isinstance(identifier, (list, tuple)) else identifier,
                               bool(is_active)))
            return
        if name != "get_active_identifier":
            return
        self.decisions += 1
        rows = table.rows
        selected = tuple(result) if isinstance(result, (list, tuple)) else result
        rates = {r[1]: r[0] for r in rows}
        if selected not in rates:
            ctx.violation("C05", "selected_unit_not_in_table", {"selected": selected, "table": rows})
        if not rates[selected] < 0.0:
            ctx.violation("C05", "selected_unit_has_non_negative_derivative",
                          {"selected": selected, "derivative": rates[selected], "table": rows,
                           "scheme": lifting.__class__.__name__})
        # the table of a factor sums to zero (translation invariance); the balance "inflow of k = |q_k|" presupposes it
        total_abs_now = sum(abs(r[0]) for r in rows)
        if total_abs_now > 0.0:
            relative_residual = abs(sum(r[0] for r in rows)) / total_abs_now
            if relative_residual > ctx.notes.get("c05_largest_relative_residual_of_a_table", 0.0):
                ctx.notes["c05_largest_relative_residual_of_a_table"] = relative_residual
            if relative_residual > 1e-7:
                ctx.violation("C05", "table_handed_to_the_scheme_does_not_sum_to_zero",
                              {"table": rows, "relative_residual": relative_residual,
                               "scheme": lifting.__class__.__name__})
        actives = [i for i, r in enumerate(rows) if r[2]]
        if len(actives) != 1:
            ctx.violation("C05", "table_without_exactly_one_active_unit", {"table": rows})
        # the choice depends on nothing but the table and the draws: a fresh instance with the same draws agrees
        cls = type(lifting)
        again, consumed = run_scheme(cls, rows, actives[0], table.draws)
        if again != selected or consumed != len(table.draws):
            ctx.violation("C05", "choice_depends_on_more_than_table_and_draws",
                          {"selected": selected, "fresh_instance": again, "draws": table.draws, "table": rows,
                           "draws_consumed_by_fresh_instance": consumed})
        ctx.probes["c05_decisions_checked"] += 1
        ctx.probes["c05_scheme_" + cls.__name__.split(" ")[0]] += 1
        ctx.probes["c05_table_size_%d" % len(rows)] += 1
        if any(r[0] == 0.0 for r in rows):
            ctx.probes["c05_table_with_exact_zero"] += 1
        if self.decisions % self.explore_every == 1 and self.explored < self.max_explorations:
            self.explored += 1
            self._explore(cls, rows, len(table.draws))
            # the same balance with the tables the real handler fills for every other choice of the active unit (the
            # order of insertion is the handler's, and the schemes that stack rates depend on it)
            handler = _handler_on_stack(lifting)
            tables = tables_of_real_handler(handler, rows) if handler is not None else None
            if tables is None:
                ctx.probes["c05_handler_level_exploration_skipped"] += 1
            else:
                self._explore(cls, rows, len(table.draws), tables, type(handler).__name__)

    def on_draw(self, kind, args, site, u, value):
        if _BUSY[0] or kind != "uniform" or site is None or "Lifting" not in site.split(".")[0]:
            return
        self._route_draw(u, site)

    def _route_draw(self, u, site):
        # draws are attributed through the call stack: the lifting wrapper is on the stack while it draws
        import sys
        frame = sys._getframe(2)
        depth = 0
        while frame is not None and depth < 12:
            obj = frame.f_locals.get("self")
            if obj is not None and id(obj) in self.tables:
                self.tables[id(obj)].draws.append(u)
                return
            frame = frame.f_back
            depth += 1

    def _explore(self, cls, rows, n_draws, tables=None, handler_name=None):
        ctx = self.ctx
        if n_draws == 0:
            return
        per_active = {}
        if tables is not None:
            rates = {r[1]: r[0] for r in rows}
            scale = sum(abs(r[0]) for r in rows)
            for index, filled in tables.items():
                if sorted(r[1] for r in filled) != sorted(rates) or any(
                        abs(r[0] - rates[r[1]]) > 1e-5 * scale for r in filled):
                    # the displaced copy saw another table (a kink of the potential next to this configuration)
                    ctx.probes["c05_handler_table_differs_for_other_active_unit"] += 1
                    return
                want = rows[index][1]
                per_active[index] = ([(rates[r[1]], r[1], r[1] == want) for r in filled],
                                     [r[1] for r in filled].index(want))
                if [r[1] for r in filled] != [r[1] for r in rows]:
                    ctx.probes["c05_insertion_order_varies_with_active_unit"] += 1
        total_abs = sum(abs(r[0]) for r in rows)
        residual = abs(sum(r[0] for r in rows))
        if total_abs == 0.0:
            return
        inflow = {}
        evaluations = 0
        positives = [i for i, r in enumerate(rows) if r[0] > 0.0]
        for i in positives:
            # which of the draws matters is found out by sweeping each; a draw that never changes the outcome has a
            # single-interval measure
            chosen = None
            rows_i, active_i = per_active.get(i, (rows, i))
            for swept in range(n_draws - 1, -1, -1):
                measure, n = selection_measure(cls, rows_i, active_i, n_draws, swept)
                evaluations += n
                if len(measure) > 1 or swept == 0:
                    chosen = measure
                    if len(measure) > 1:
                        # selection must not depend on the other draws
                        for other in (0.11, 0.83):
                            again, n2 = selection_measure(cls, rows_i, active_i, n_draws, swept, fixed=other,
                                                          grid=64)
                            evaluations += n2
                            for k in set(measure) | set(again):
                                if abs(measure.get(k, 0.0) - again.get(k, 0.0)) > 1e-9:
                                    ctx.probes["c05_selection_depends_on_two_draws"] += 1
                    break
            for k, m in chosen.items():
                inflow[k] = inflow.get(k, 0.0) + rows[i][0] * m
        tol = 1e-9 * total_abs + residual * (1.0 + 1e-9)
        for rate, identifier, _ in rows:
            if rate > 0.0:
                if inflow.get(identifier, 0.0) > tol:
                    ctx.violation("C05", "flow_into_unit_with_positive_derivative",
                                  {"unit": identifier, "inflow": inflow.get(identifier), "table": rows,
                                   "scheme": cls.__name__})
                continue
            if abs(inflow.get(identifier, 0.0) - (-rate)) > tol:
                ctx.violation("C05", "lifted_flow_not_balanced",
                              {"unit": identifier, "inflow": inflow.get(identifier, 0.0), "outflow": -rate,
                               "tolerance": tol, "table": rows, "scheme": cls.__name__,
                               "tables_filled_by": handler_name or "harness (order of the observed table)",
                               "orders": {str(i): [r[1] for r in t[0]] for i, t in per_active.items()}})
            worst = abs(inflow.get(identifier, 0.0) + rate) / total_abs
            if worst > ctx.notes.get("c05_largest_relative_imbalance", 0.0):
                ctx.notes["c05_largest_relative_imbalance"] = worst
        ctx.probes["c05_tables_explored_with_real_handler_orders" if tables is not None
                   else "c05_tables_explored"] += 1
        ctx.probes["c05_forced_scheme_evaluations"] += evaluations
