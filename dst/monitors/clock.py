"""C14 (shadow clock): every Time operation the system executes is re-evaluated in exact rational arithmetic
(DESIGN.md section 4, C14)."""
import math
from fractions import Fraction

from ..seams import Monitor

HALF_ULP = Fraction(1, 2 ** 53)


def exact(t):
    return Fraction(t.quotient) + Fraction(t.remainder)


def finite(t):
    return not (math.isinf(t.quotient) or math.isinf(t.remainder))


class ShadowClock(Monitor):
    name = "C14"

    def __init__(self, ctx=None, every=7, report=None):
        self.ctx = ctx
        self.every = every
        self.count = 0
        self.checked = 0
        self.problems = []
        self.report = report
        self.max_quotient = 0.0
        self.stats = {}

    def _bad(self, oracle, detail):
        if self.ctx is not None:
            self.ctx.violation("C14", oracle, detail)
        else:
            self.problems.append({"oracle": oracle, "detail": detail})

    def _bump(self, key):
        if self.ctx is not None:
            self.ctx.probes[key] += 1
        else:
            self.stats[key] = self.stats.get(key, 0) + 1

    def on_time_op(self, name, left, right, result):
        self.count += 1
        if name == "__add__":
            # normalisation is cheap to test: every sum is looked at, the exact-rational oracles are sampled
            r = result.remainder
            if not (0.0 <= r < 1.0) and not math.isinf(r) and isinstance(right, float) and right >= 0.0 \
                    and not math.isinf(left.quotient) and 0.0 <= left.remainder < 1.0:
                self._bad("sum_not_normalised", {"left": repr(left), "dt": right, "result": repr(result)})
        if self.count % self.every:
            return
        self.checked += 1
        if name == "__add__":
            self._check_add(left, right, result)
        elif name == "__sub__":
            self._check_sub(left, right, result)
        elif name == "from_float":
            self._check_from_float(right, result)
        else:
            self._check_compare(name, left, right, result)

    def _check_add(self, left, dt, result):
        if not isinstance(dt, float) or math.isnan(dt):
            return
        if dt < 0.0:
            self._bump("c14_negative_displacement_skipped")
            return
        if math.isinf(dt):
            if not (math.isinf(result.quotient) and result.quotient > 0):
                self._bad("infinity_not_absorbing", {"left": repr(left), "result": repr(result)})
            return
        if not finite(left):
            if finite(result):
                self._bad("infinity_not_absorbing", {"left": repr(left), "dt": dt, "result": repr(result)})
            return
        q, r = result.quotient, result.remainder
        if not (0.0 <= r < 1.0) or q != math.floor(q):
            self._bad("sum_not_normalised", {"left": repr(left), "dt": dt, "result": repr(result)})
        want = exact(left) + Fraction(dt)
        got = exact(result)
        tolerance = HALF_ULP * 2 * max(1, math.ceil(left.remainder + dt))
        if abs(got - want) > tolerance:
            self._bad("sum_differs_from_exact_sum_by_more_than_one_rounding",
                      {"left": repr(left), "dt": dt, "result": repr(result), "error": float(got - want),
                       "tolerance": float(tolerance)})
        if got < exact(left):
            self._bad("addition_decreased_the_time", {"left": repr(left), "dt": dt, "result": repr(result)})
        # monotone in the displacement (metamorphic, on the observed operands)
        bigger = type(left).__add__.__wrapped__(left, math.nextafter(dt, math.inf)) if dt > 0.0 else None
        if bigger is not None and exact(bigger) < got:
            self._bad("addition_not_monotone_in_displacement", {"left": repr(left), "dt": dt})
        if abs(q) > self.max_quotient and not math.isinf(q):
            self.max_quotient = abs(q)
        self._bump("c14_additions_checked")

    def _check_sub(self, left, right, result):
        if not (finite(left) and finite(right)):
            return
        want = exact(left) - exact(right)
        tolerance = 8 * HALF_ULP * max(1, abs(want))
        if abs(Fraction(result) - want) > tolerance:
            self._bad("difference_inexact", {"left": repr(left), "right": repr(right), "result": result,
                                             "error": float(Fraction(result) - want)})
        self._bump("c14_subtractions_checked")

    def _check_from_float(self, value, result):
        if math.isinf(value):
            if not math.isinf(result.quotient):
                self._bad("from_float_of_infinity", {"value": value, "result": repr(result)})
            return
        if exact(result) != Fraction(value):
            self._bad("from_float_inexact", {"value": value, "result": repr(result)})
        self._bump("c14_conversions_checked")

    def _check_compare(self, name, left, right, result):
        def key(t):
            if math.isinf(t.quotient):
                return (1 if t.quotient > 0 else -1, 0)
            return (0, exact(t))
        a, b = key(left), key(right)
        want = {"__lt__": a < b, "__le__": a <= b, "__gt__": a > b, "__ge__": a >= b, "__eq__": a == b}[name]
        if bool(result) != want:
            self._bad("comparison_disagrees_with_exact_order", {"op": name, "left": repr(left),
                                                                "right": repr(right), "result": bool(result)})
        self._bump("c14_comparisons_checked")

    def at_end(self, status):
        if self.ctx is not None:
            self.ctx.notes["c14_largest_quotient_seen"] = self.max_quotient
            self.ctx.probes["c14_time_operations_seen"] += self.count
