"""C09: pending candidate events equal what a fresh start from the current state creates (DESIGN.md section 4, C09)."""
from collections import Counter

from ..seams import Monitor

INTERACTION_TAGGERS = ("FactorTypeMapInStateTagger", "CellVetoTagger", "ExcludedCellsTagger", "SurplusCellsTagger",
                       "CellBoundingPotentialTagger", "CellBoundaryTagger")


def base_names(cls):
    return [c.__name__ for c in cls.__mro__]


def canonical(identifiers):
    if identifiers is None:
        return None
    return tuple(tuple(i) if isinstance(i, (tuple, list)) else i for i in identifiers)


class Pending(Monitor):
    name = "C09"

    def __init__(self, ctx):
        self.ctx = ctx
        self.ids = {}           # handler -> in-state identifiers of its live candidate
        self.commits = 0
        self.tagger_checks = 0
        self.type_cache = {}
        self.active = {}        # shadow activation state: tag -> bool, from the activate / deactivate lists
        self.last = None

    def _is_interaction(self, tagger):
        key = type(tagger)
        if key not in self.type_cache:
            self.type_cache[key] = any(name in INTERACTION_TAGGERS for name in base_names(key))
        return self.type_cache[key]

    def on_to_run(self, activator, active_state, preceding, result):
        ctx = self.ctx
        for handler, identifiers in result.items():
            self.ids[handler] = canonical(identifiers)
        # shadow activation model, independent of the taggers' own state
        if not self.active:
            self.active = {tagger.tag: True for tagger in ctx.taggers}
        if preceding is None:
            source = [t for t in ctx.taggers if any(ctx.kind(h) == "start_of_run" for h in t.get_event_handlers())]
            source = source[0] if source else None
        else:
            source = ctx.handler_tagger.get(preceding)
        if source is not None:
            for tag in source.activates:
                self.active[tag] = True
            for tag in source.deactivates:
                self.active[tag] = False

    def on_trash(self, scheduler, handler):
        self.ids.pop(handler, None)

    def on_insert_end(self, state_handler, out_state):
        self.commits += 1
        self.last = self.ctx.current_handler

    def on_get(self, scheduler, handler):
        ctx = self.ctx
        if self.commits < 1:
            return
        active_state = ctx.state_handler.extract_active_global_state()
        by_tagger = {}
        for h in ctx.pending:
            tagger = ctx.handler_tagger.get(h)
            by_tagger.setdefault(tagger, []).append(self.ids.get(h))
        for tagger in ctx.taggers:
            if any(ctx.kind(h) == "start_of_run" for h in tagger.get_event_handlers()):
                continue    # one-shot: never re-created, not among the taggers the property speaks about
            if self.active.get(tagger.tag, True):
                # what the activated tagger generates: the class-level generator, independent of how (method swap,
                # flag, ...) the instance implements activation
                fresh = [canonical(i) for i in type(tagger).yield_identifiers_send_event_time(tagger, active_state)]
                ctx.probes["c09_checks_of_activated_taggers"] += 1
            else:
                # a deactivated tagger creates nothing; whether candidates it computed earlier are still pending depends
                # on the wiring (they stay until an event that changes a motion trashes them) and is not judged
                ctx.probes["c09_deactivated_taggers_skipped"] += 1
                continue
            pending = by_tagger.get(tagger, [])
            owned = len(tagger.get_event_handlers())
            if len(fresh) > owned:
                ctx.violation("C09", "more_event_handlers_demanded_than_owned",
                              {"tagger": tagger.tag, "demanded": len(fresh), "owned": owned})
            if self._is_interaction(tagger):
                if Counter(pending) != Counter(fresh):
                    missing = list((Counter(fresh) - Counter(pending)).elements())[:5]
                    extra = list((Counter(pending) - Counter(fresh)).elements())[:5]
                    ctx.violation("C09", "pending_in_states_differ_from_fresh_start",
                                  {"tagger": tagger.tag, "missing": missing, "duplicated_or_stale": extra,
                                   "after": ctx.tag_of(self.last)})
            else:
                if len(pending) != len(fresh):
                    ctx.violation("C09", "pending_count_differs_from_fresh_start",
                                  {"tagger": tagger.tag, "pending": len(pending), "fresh": len(fresh),
                                   "after": ctx.tag_of(self.last)})
            self.tagger_checks += 1

    def at_end(self, status):
        self.ctx.probes["c09_tagger_checks"] += self.tagger_checks
