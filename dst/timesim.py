"""timesim: operation histories on base.time.Time objects (construct, add, update in place, subtract, compare) against
an exact rational model (DESIGN.md section 4, C14).  Time objects have state (``update`` mutates them in place), so a
history of operations on a pool of objects reaches what single calls cannot."""
import math
import random
from fractions import Fraction

NEAR_ONE = math.nextafter(1.0, 0.0)
HALF_ULP = Fraction(1, 2 ** 53)


class Failure(Exception):
    def __init__(self, oracle, index, detail):
        super().__init__(oracle)
        self.oracle, self.index, self.detail = oracle, index, detail


def random_quotient(rng):
    return float(rng.choice([0, 0, 1, 2, 7, 100, 2 ** 24, 2 ** 31, 2 ** 32 + 1, 54678924378, 2 ** 40, 2 ** 52 - 1,
                             2 ** 52]))


def random_remainder(rng):
    return rng.choice([0.0, 0.5, NEAR_ONE, 5e-324, 0.25, 0.7, 0.3, 0.1, math.nextafter(0.5, 0.0), 1e-323, 3e-310,
                       2.2250738585072014e-308]) \
        if rng.random() < 0.5 else rng.random()


def random_displacement(rng):
    x = rng.random()
    if x < 0.1:
        return math.inf
    if x < 0.2:
        return rng.choice([5e-324, 2.2e-308, 2 ** -54, 1.1102230246251565e-16, 0.3, 0.7, 0.15, 1.0, 2.0 ** 40,
                           1e-323, 3e-310, 7e-315])
    if x < 0.3:
        return 0.0
    return 10.0 ** rng.uniform(-17.0, 12.0)


def generate(rng, length):
    ops = []
    pool = rng.randint(2, 6)
    for _ in range(length):
        x = rng.random()
        a, b = rng.randrange(pool), rng.randrange(pool)
        if x < 0.2:
            ops.append(["new", a, random_quotient(rng), random_remainder(rng)])
        elif x < 0.3:
            ops.append(["from_float", a, rng.choice([0.0, 0.3, 1.0, 12.5, 2.0 ** 40 + 0.5, 1e-300, 5e-324, 3e-310,
                                                      10.0 ** rng.uniform(-10, 15)])])
        elif x < 0.55:
            ops.append(["add", a, b, random_displacement(rng)])      # pool[a] = pool[b] + dt
        elif x < 0.7:
            ops.append(["update", a, b])                               # pool[a].update(pool[b])
        elif x < 0.8:
            ops.append(["sub", a, b])
        else:
            ops.append(["compare", a, b])
    return pool, ops


def frac(x):
    """Exact rational value of a float, read from its bit pattern (``Fraction(x)`` goes through floating-point
    operations, which treat subnormal numbers as zero if the process has been switched to flush-to-zero mode)."""
    import struct
    bits = struct.unpack("<Q", struct.pack("<d", x))[0]
    sign = -1 if bits >> 63 else 1
    exponent = (bits >> 52) & 0x7FF
    mantissa = bits & ((1 << 52) - 1)
    if exponent == 0x7FF:
        raise OverflowError("infinity or nan has no rational value")
    if exponent == 0:
        return Fraction(sign * mantissa, 2 ** 1074)
    value = mantissa | (1 << 52)
    shift = exponent - 1075
    return Fraction(sign * value * 2 ** shift) if shift >= 0 else Fraction(sign * value, 2 ** (-shift))


def half_ulp(value):
    """Half a unit in the last place of the binade of the exact non-negative rational ``value``."""
    if value <= 0:
        return Fraction(1, 2 ** 1075)
    k = value.numerator.bit_length() - value.denominator.bit_length()
    if Fraction(2) ** k > value:
        k -= 1                                   # 2**k <= value < 2**(k + 1)
    return Fraction(2) ** (max(k, -1022) - 53)


def exact(t):
    if math.isinf(t.quotient):
        return None
    return frac(t.quotient) + frac(t.remainder)


def run_history(pool_size, ops, stats=None):
    from jellyfysh.base.time import Time
    stats = stats if stats is not None else {}

    def bump(key):
        stats[key] = stats.get(key, 0) + 1

    pool = [Time(0.0, 0.0) for _ in range(pool_size)]
    model = [Fraction(0) for _ in range(pool_size)]      # exact value, None for +infinity

    def check_object(index, i, where):
        t = pool[i]
        want = model[i]
        got = exact(t)
        if want is None:
            if got is not None:
                raise Failure("infinite_time_became_finite", index, {"where": where, "time": repr(t)})
            return
        if got != want:
            raise Failure("stored_time_differs_from_model", index, {"where": where, "time": repr(t),
                                                                     "model": float(want)})

    for index, op in enumerate(ops):
        kind = op[0]
        if kind == "new":
            pool[op[1]] = Time(op[2], op[3])
            model[op[1]] = frac(op[2]) + frac(op[3])
            bump("new")
        elif kind == "from_float":
            t = Time.from_float(op[2])
            if exact(t) != frac(op[2]):
                raise Failure("from_float_inexact", index, {"value": op[2], "result": repr(t)})
            if not (0.0 <= t.remainder < 1.0 and t.quotient == math.floor(t.quotient)):
                raise Failure("from_float_not_normalised", index, {"value": op[2], "result": repr(t)})
            pool[op[1]] = t
            model[op[1]] = frac(op[2])
            bump("from_float")
        elif kind == "add":
            a, b, dt = op[1], op[2], op[3]
            left = pool[b]
            if model[b] is None:
                # an infinite time as the left operand is outside the property's quantifier (quotients up to 2**52);
                # by the way: Time(inf, inf) + 1.0 is Time(nan, nan) on the current tree
                bump("add_to_infinite_time_skipped")
                continue
            result = left + dt
            if math.isinf(dt):
                if exact(result) is not None:
                    raise Failure("infinity_not_absorbing", index, {"left": repr(left), "dt": dt,
                                                                    "result": repr(result)})
                pool[a], model[a] = result, None
                bump("add_infinite")
                continue
            normalised = 0.0 <= left.remainder < 1.0 and left.quotient == math.floor(left.quotient)
            if normalised:
                if not (0.0 <= result.remainder < 1.0) or result.quotient != math.floor(result.quotient):
                    raise Failure("sum_not_normalised", index, {"left": repr(left), "dt": dt, "result": repr(result)})
                want = model[b] + frac(dt)
                got = exact(result)
                # one rounding of the remainder: the float sum remainder + displacement is rounded once (the split
                # into integer and fractional part is exact), so the error is at most half a unit in the last place
                # of that sum -- in the subnormal range half of 2**-1074
                tolerance = half_ulp(frac(left.remainder) + frac(dt))
                # the quotient addition is exact below 2**53; beyond, one rounding of the quotient is allowed
                if abs(want) >= 2 ** 53:
                    tolerance += Fraction(2) ** (math.frexp(float(want))[1] - 53)
                if abs(got - want) > tolerance:
                    raise Failure("sum_differs_from_exact_sum_by_more_than_one_rounding", index,
                                  {"left": repr(left), "dt": dt, "result": repr(result),
                                   "error": float(got - want)})
                if got < model[b]:
                    raise Failure("addition_decreased_the_time", index, {"left": repr(left), "dt": dt,
                                                                         "result": repr(result)})
                bigger = left + math.nextafter(dt, math.inf)
                if exact(bigger) is not None and exact(bigger) < got:
                    raise Failure("addition_not_monotone_in_displacement", index, {"left": repr(left), "dt": dt})
            pool[a], model[a] = result, exact(result)
            bump("add")
        elif kind == "update":
            a, b = op[1], op[2]
            pool[a].update(pool[b])
            model[a] = model[b]
            check_object(index, a, "update")
            bump("update")
        elif kind == "sub":
            a, b = op[1], op[2]
            if model[a] is None or model[b] is None:
                continue
            result = pool[a] - pool[b]
            want = model[a] - model[b]
            tolerance = 8 * HALF_ULP * max(1, abs(want), abs(frac(pool[a].quotient) - frac(pool[b].quotient)))
            if abs(frac(result) - want) > tolerance:
                raise Failure("difference_inexact", index, {"left": repr(pool[a]), "right": repr(pool[b]),
                                                            "result": result, "error": float(frac(result) - want)})
            bump("sub")
        elif kind == "compare":
            a, b = op[1], op[2]
            ta, tb = pool[a], pool[b]
            if not all(0.0 <= t.remainder < 1.0 or math.isinf(t.remainder) for t in (ta, tb)):
                continue

            def key(value):
                return (1, 0) if value is None else (0, value)
            ka, kb = key(model[a]), key(model[b])
            expected = {"lt": ka < kb, "le": ka <= kb, "gt": ka > kb, "ge": ka >= kb, "eq": ka == kb, "ne": ka != kb}
            actual = {"lt": ta < tb, "le": ta <= tb, "gt": ta > tb, "ge": ta >= tb, "eq": ta == tb, "ne": ta != tb}
            for name in expected:
                if bool(actual[name]) != expected[name]:
                    raise Failure("comparison_disagrees_with_exact_order", index,
                                  {"op": name, "left": repr(ta), "right": repr(tb), "result": bool(actual[name])})
            bump("compare")
            if ka == kb and a != b:
                bump("compare_equal_values")
        for i in range(pool_size):
            check_object(index, i, kind)
    # the C heap compares (quotient, remainder) lexicographically at full resolution: the pool's finite times, and
    # close neighbours of them, come out of a fresh heap scheduler in exact order
    from jellyfysh.scheduler.heap_scheduler import HeapScheduler
    times = []
    for i in range(pool_size):
        t = pool[i]
        if model[i] is None or not (0.0 <= t.remainder < 1.0) or t.quotient < 0:
            continue
        times.append((t.quotient, t.remainder))
        if t.remainder > 0.0:
            times.append((t.quotient, math.nextafter(t.remainder, 0.0)))
        if t.remainder < NEAR_ONE:
            times.append((t.quotient, math.nextafter(t.remainder, 1.0)))
    if len(times) >= 2:
        order = list(range(len(times)))
        random.Random(len(ops) * 7919 + pool_size).shuffle(order)
        scheduler = HeapScheduler()
        handlers = [object() for _ in times]
        for k in order:
            scheduler.push_event(Time(*times[k]), handlers[k])
        previous = None
        for _ in times:
            h = scheduler.get_succeeding_event()
            k = handlers.index(h)
            value = frac(times[k][0]) + frac(times[k][1])
            if previous is not None and value < previous:
                raise Failure("heap_returns_times_out_of_exact_order", len(ops),
                              {"time": times[k], "after": float(previous), "pushed": [times[j] for j in order][:12]})
            previous = value
            scheduler.trash_event(h)
        bump("heap_order_checks")
    return stats
