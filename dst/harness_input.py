"""Harness input handler (a configuration a user could write if this class shipped): atoms or dipoles on a jittered
lattice, so that hard cores never overlap initially.  It replaces the MDAnalysis based PDB reader, which is not
installed.  Registered under jellyfysh.input_output_handler.input_handler.lattice_input_handler by seams.install()."""
import math
from typing import Sequence

from jellyfysh.base.node import Node
from jellyfysh.base.particle import Particle
from jellyfysh.input_output_handler.input_handler.charge_values import ChargeValues
from jellyfysh.input_output_handler.input_handler.input_handler import InputHandler
import jellyfysh.setting as setting
import jellyfysh.setting.hypercuboid_setting as hypercuboid_setting

from dst.seams import FACADE as random


class LatticeInputHandler(InputHandler):
    def __init__(self, number_of_root_nodes: int, nodes_per_root_node: int = 1, jitter: float = 0.0,
                 dipole_separation: float = 0.0, charge_values: Sequence[ChargeValues] = ()) -> None:
        super().__init__()
        setting.set_number_of_root_nodes(number_of_root_nodes)
        setting.set_number_of_nodes_per_root_node(nodes_per_root_node)
        setting.set_number_of_node_levels(1 if nodes_per_root_node == 1 else 2)
        self._n = number_of_root_nodes
        self._per_root = nodes_per_root_node
        self._jitter = jitter
        self._dipole_separation = dipole_separation
        self._charge_values = charge_values

    def read(self):
        dimension = setting.dimension
        lengths = hypercuboid_setting.system_lengths
        per_side = int(math.ceil(self._n ** (1.0 / dimension) - 1e-9))
        nodes = []
        for index in range(self._n):
            cell = []
            rest = index
            for _ in range(dimension):
                cell.append(rest % per_side)
                rest //= per_side
            center = [(cell[d] + 0.5) * lengths[d] / per_side + random.uniform(-self._jitter, self._jitter)
                      for d in range(dimension)]
            setting.periodic_boundaries.correct_position(center)
            if self._per_root == 1:
                nodes.append(Node(Particle(center, {cv.charge_name: cv[0] for cv in self._charge_values})))
                continue
            angle = random.uniform(0.0, 2.0 * math.pi)
            direction = [math.cos(angle), math.sin(angle)] + [0.0] * (dimension - 2)
            if self._per_root > 2:
                # a straight chain of point masses with spacing ``dipole_separation``, centred on the root position
                root = Node(Particle(center))
                for k in range(self._per_root):
                    offset = (k - (self._per_root - 1) / 2.0) * self._dipole_separation
                    position = [center[d] + offset * direction[d] for d in range(dimension)]
                    setting.periodic_boundaries.correct_position(position)
                    root.add_child(Node(Particle(position, {cv.charge_name: cv[k] for cv in self._charge_values})))
                nodes.append(root)
                continue
            half = self._dipole_separation / 2.0
            one = [center[d] + half * direction[d] for d in range(dimension)]
            two = [center[d] - half * direction[d] for d in range(dimension)]
            setting.periodic_boundaries.correct_position(one)
            setting.periodic_boundaries.correct_position(two)
            root = Node(Particle(center))
            root.add_child(Node(Particle(one, {cv.charge_name: cv[0] for cv in self._charge_values})))
            root.add_child(Node(Particle(two, {cv.charge_name: cv[1] for cv in self._charge_values})))
            nodes.append(root)
        return nodes
