"""Harness-built configurations (DESIGN.md section 2.2): systems with exactly known equilibrium distributions and no
random numbers in send_out_state.  Each is a section dictionary exactly as a user could write it."""
from . import scenario as scenario_module


def _atoms_base(package_dir):
    s = scenario_module.load_ini(package_dir, "2018_JCP_149_064113/coulomb_atoms/power_bounded.ini")
    s.pop("TwoLeafUnitBoundingPotentialEventHandler", None)
    s["AtomRandomNodeCreator"] = {}
    s.pop("ElectricChargeValues", None)
    s["FinalTimeEndOfRunEventHandler"]["end_of_run_time"] = "50"
    return s


def soft_spheres(package_dir):
    s = _atoms_base(package_dir)
    s["Coulomb"]["event_handler"] = "soft_event_handler (two_leaf_unit_event_handler)"
    s["SoftEventHandler"] = {"potential": "soft_potential (inverse_power_potential)"}
    s["SoftPotential"] = {"power": "12", "prefactor": "1.3e-10"}      # (0.15 / r) ** 12
    return s


def soft_disks(package_dir):
    s = soft_spheres(package_dir)
    s["HypercubicSetting"]["dimension"] = "2"
    return s


def lj_atoms(package_dir):
    s = _atoms_base(package_dir)
    s["Coulomb"]["event_handler"] = "lj_event_handler (two_leaf_unit_event_handler)"
    s["LjEventHandler"] = {"potential": "lennard_jones_potential"}
    s["LennardJonesPotential"] = {"prefactor": "1.0", "characteristic_length": "0.12"}
    return s


def hard_spheres(package_dir):
    s = _atoms_base(package_dir)
    s["Coulomb"]["event_handler"] = "hard_event_handler (two_leaf_unit_event_handler)"
    s["HardEventHandler"] = {"potential": "hard_sphere_potential"}
    s["HardSpherePotential"] = {"radius": "0.08"}
    s["InputOutputHandler"]["input_handler"] = "lattice_input_handler"
    s.pop("RandomInputHandler", None)
    s.pop("AtomRandomNodeCreator", None)
    s["LatticeInputHandler"] = {"number_of_root_nodes": "4", "jitter": "0.02"}
    s["Coulomb"]["number_event_handlers"] = "3"
    # pair events use the nearest image taken when the candidate is requested: a chain must stay well below L/2
    s["SingleIndependentActivePeriodicDirectionEndOfChainEventHandler"]["chain_time"] = "0.25"
    return s


def hard_disks(package_dir):
    s = hard_spheres(package_dir)
    s["HypercubicSetting"]["dimension"] = "2"
    s["HardSpherePotential"] = {"radius": "0.1"}
    s["LatticeInputHandler"] = {"number_of_root_nodes": "4", "jitter": "0.03"}
    return s


def hard_disk_dipoles(package_dir):
    """hard_disk_dipoles.ini with the PDB reader replaced by the lattice handler (MDAnalysis is not installed)."""
    s = scenario_module.load_ini(package_dir, "hard_disk_dipoles/hard_disk_dipoles.ini")
    _lattice_dipoles(s)
    return s


def hard_disk_dipoles_cells(package_dir):
    s = scenario_module.load_ini(package_dir, "hard_disk_dipoles/hard_disk_dipoles_cells.ini")
    _lattice_dipoles(s)
    return s


def _lattice_dipoles(s):
    s.pop("PdbInputHandler", None)
    s["InputOutputHandler"]["input_handler"] = "lattice_input_handler"
    # 9 dipoles on a 3 x 3 lattice with spacing 2.3 (dilute enough for every orientation to be free of overlaps)
    s["HypercubicSetting"]["system_length"] = "6.9"
    s["LatticeInputHandler"] = {"number_of_root_nodes": "9", "nodes_per_root_node": "2", "jitter": "0.05",
                                "dipole_separation": "1.0",
                                "charge_values": "electric_charge_values (charge_values)"}
    if "CuboidPeriodicCells" in s:
        s["CuboidPeriodicCells"]["cells_per_side"] = "6"
    s["FinalTimeEndOfRunEventHandler"]["end_of_run_time"] = "50"


def cuboid_hard_cells(package_dir):
    """Hard spheres in a non-cubic periodic box with a cell system: pair events with the units in nearby cells, pair
    events with surplus units, cell-boundary events (the pattern of hard_disk_dipoles_cells.ini, for atoms)."""
    s = hard_spheres(package_dir)
    s["Run"]["setting"] = "hypercuboid_setting"
    s.pop("HypercubicSetting")
    s["HypercuboidSetting"] = {"system_lengths": "2.0, 1.0", "beta": "1", "dimension": "2"}
    s["HardSpherePotential"] = {"radius": "0.05"}
    s["LatticeInputHandler"] = {"number_of_root_nodes": "9", "jitter": "0.04"}
    s["TagActivator"] = {"taggers": "nearby (excluded_cells_tagger),\nsurplus (surplus_cells_tagger),\n"
                                    "cell_boundary (cell_boundary_tagger),\nsampling (no_in_state_tagger),\n"
                                    "end_of_chain (active_global_state_in_state_tagger),\n"
                                    "end_of_run (no_in_state_tagger),\nstart_of_run (no_in_state_tagger)",
                         "internal_states": "single_active_cell_occupancy"}
    s.pop("Coulomb")
    s.pop("FactorTypeMaps", None)
    group = "nearby, surplus, cell_boundary"
    for name in ("Nearby", "Surplus"):
        s[name] = {"create": group, "trash": group, "internal_state_label": "single_active_cell_occupancy",
                   "event_handler": "hard_event_handler (two_leaf_unit_event_handler)", "number_event_handlers": "8"}
    s["CellBoundary"] = {"create": group, "trash": group, "internal_state_label": "single_active_cell_occupancy",
                         "event_handler": "cell_boundary_event_handler"}
    s["SingleActiveCellOccupancy"] = {"cells": "cuboid_periodic_cells", "cell_level": "1",
                                      "maximum_number_occupants": "1"}
    s["CuboidPeriodicCells"] = {"cells_per_side": "6, 4", "neighbor_layers": "1"}
    s["EndOfChain"]["create"] = "end_of_chain, " + group
    s["EndOfChain"]["trash"] = "end_of_chain, " + group
    s["EndOfRun"]["trash"] = "end_of_chain, sampling, end_of_run, " + group
    s["StartOfRun"]["create"] = "sampling, end_of_chain, end_of_run, " + group
    return s


def cuboid_soft(package_dir):
    """Soft spheres in a non-cubic periodic box (no cell system)."""
    s = soft_spheres(package_dir)
    s["Run"]["setting"] = "hypercuboid_setting"
    s.pop("HypercubicSetting")
    s["HypercuboidSetting"] = {"system_lengths": "1.0, 1.5, 2.0", "beta": "2", "dimension": "3"}
    s["SingleIndependentActivePeriodicDirectionEndOfChainEventHandler"]["chain_time"] = "0.3"
    return s


def water_motion(package_dir):
    """Water molecules that switch between molecule motion and atom motion (the mode switching of dipole_motion.ini
    applied to three-site molecules): bonds, bending and oxygen-oxygen Lennard-Jones in atom mode, Lennard-Jones
    between whole molecules in molecule mode."""
    w = scenario_module.load_ini(package_dir, "2018_JCP_149_064113/water/coulomb_power_bounded_lj_inverted.ini")
    d = scenario_module.load_ini(package_dir, "2018_JCP_149_064113/dipoles/dipole_motion.ini")
    s = {}
    for name in ("Run", "HypercubicSetting", "SingleProcessMediator", "TreeStateHandler", "FactorTypeMaps",
                 "HarmonicEventHandler", "HarmonicPotential", "BendingEventHandler", "BendingPotential",
                 "LennardJonesPotential", "Sampling", "FixedIntervalSamplingEventHandler",
                 "SingleIndependentActivePeriodicDirectionEndOfChainEventHandler", "FinalTimeEndOfRunEventHandler",
                 "InitialChainStartOfRunEventHandler", "InputOutputHandler", "RandomInputHandler",
                 "WaterRandomNodeCreator", "ElectricChargeValues", "OxygenIndicator",
                 "OxygenOxygenSeparationOutputHandler"):
        if name in w:
            s[name] = dict(w[name])
    leaf = "harmonic, bending, lennard_jones_leaf"
    s["TagActivator"] = {"taggers": ",\n".join([
        "harmonic (factor_type_map_in_state_tagger)", "bending (factor_type_map_in_state_tagger)",
        "lennard_jones_leaf (factor_type_map_in_state_tagger)", "lennard_jones_root (factor_type_map_in_state_tagger)",
        "sampling (no_in_state_tagger)", "leaf_to_root (active_root_unit_in_state_tagger)",
        "root_to_leaf (active_root_unit_in_state_tagger)", "end_of_chain (active_global_state_in_state_tagger)",
        "end_of_run (no_in_state_tagger)", "start_of_run (no_in_state_tagger)"])}
    s["Harmonic"] = {"create": leaf, "trash": leaf, "event_handler": "harmonic_event_handler (two_leaf_unit_event_handler)",
                     "number_event_handlers": "2", "factor_type_maps": "factor_type_maps"}
    s["Bending"] = {"create": leaf, "trash": leaf, "number_event_handlers": "1", "factor_type_maps": "factor_type_maps",
                    "event_handler": "bending_event_handler (fixed_separations_event_handler_with_piecewise_constant_"
                                     "bounding_potential)"}
    s["LennardJonesLeaf"] = {"create": leaf, "trash": leaf, "number_event_handlers": "1",
                             "factor_type_maps": "factor_type_maps", "factor_type_maps_label": "lennard_jones",
                             "event_handler": "lennard_jones_event_handler (two_leaf_unit_event_handler)"}
    s["LennardJonesEventHandler"] = {"potential": "lennard_jones_potential"}
    s["LennardJonesRoot"] = {"create": "lennard_jones_root", "trash": "lennard_jones_root",
                             "number_event_handlers": "1", "factor_type_maps": "factor_type_maps",
                             "factor_type_maps_label": "lennard_jones",
                             "event_handler": "lennard_jones_molecule_mode_event_handler "
                                              "(root_unit_active_two_leaf_unit_event_handler)"}
    s["LennardJonesMoleculeModeEventHandler"] = {"potential": "lennard_jones_potential"}
    s["RootToLeaf"] = {"create": leaf + ", leaf_to_root, end_of_chain",
                       "trash": "lennard_jones_root, root_to_leaf, end_of_chain",
                       "activate": leaf + ", leaf_to_root", "deactivate": "lennard_jones_root, root_to_leaf",
                       "event_handler": "root_to_leaf_mode (root_leaf_unit_active_switcher)"}
    s["RootToLeafMode"] = dict(d["RootToLeafMode"])
    s["LeafToRoot"] = {"create": "lennard_jones_root, root_to_leaf, end_of_chain",
                       "trash": leaf + ", leaf_to_root, end_of_chain",
                       "activate": "lennard_jones_root, root_to_leaf", "deactivate": leaf + ", leaf_to_root",
                       "event_handler": "leaf_to_root_mode (root_leaf_unit_active_switcher)"}
    s["LeafToRootMode"] = dict(d["LeafToRootMode"])
    s["EndOfChain"] = {"create": "end_of_chain, " + leaf + ", lennard_jones_root",
                       "trash": "end_of_chain, " + leaf + ", lennard_jones_root",
                       "event_handler": "single_independent_active_periodic_direction_end_of_chain_event_handler"}
    s["EndOfRun"] = {"create": "end_of_run", "event_handler": "final_time_end_of_run_event_handler",
                     "trash": leaf + ", lennard_jones_root, leaf_to_root, root_to_leaf, end_of_chain, sampling, "
                              "end_of_run"}
    s["StartOfRun"] = {"trash": "start_of_run",
                       "create": leaf + ", sampling, leaf_to_root, end_of_run, end_of_chain",
                       "activate": leaf + ", sampling, leaf_to_root, end_of_run, end_of_chain",
                       "deactivate": "root_to_leaf, lennard_jones_root",
                       "event_handler": "initial_chain_start_of_run_event_handler"}
    s["FactorTypeMaps"] = {"filename": "@generated:[0, 1], Harmonic;[1, 2], Harmonic;[0, 1, 2], Bending;"
                                       "[1, 4], LennardJones"}
    s["FinalTimeEndOfRunEventHandler"]["end_of_run_time"] = "50"
    return s


def dip_atom_phase(package_dir):
    """dipoles/atom_factors.ini with an additional timer event that switches the Coulomb factors off without touching
    any motion (a legal wiring: every event that changes a motion trashes the pending Coulomb candidates)."""
    s = scenario_module.load_ini(package_dir, "2018_JCP_149_064113/dipoles/atom_factors.ini")
    s["TagActivator"]["taggers"] = s["TagActivator"]["taggers"].rstrip().rstrip(",") + \
        ",\nphase_switch (no_in_state_tagger)"
    s["PhaseSwitch"] = {"create": "phase_switch", "trash": "phase_switch", "deactivate": "coulomb",
                        "event_handler": "phase_switch_event_handler (fixed_interval_sampling_event_handler)"}
    s["PhaseSwitchEventHandler"] = {"sampling_interval": "2.0", "output_handler": "separation_output_handler"}
    s["StartOfRun"]["create"] = s["StartOfRun"]["create"].rstrip().rstrip(",") + ", phase_switch"
    s["EndOfRun"]["trash"] = s["EndOfRun"]["trash"].rstrip().rstrip(",") + ", phase_switch"
    return s


def chain_molecules(package_dir):
    """dipoles/atom_factors.ini with straight chains of six point masses instead of dipoles (index lists of the
    factor file reach two digits for the second molecule); the factor file is generated per scenario."""
    s = scenario_module.load_ini(package_dir, "2018_JCP_149_064113/dipoles/atom_factors.ini")
    s["InputOutputHandler"]["input_handler"] = "lattice_input_handler"
    s.pop("RandomInputHandler", None)
    s.pop("DipoleRandomNodeCreator", None)
    s["LatticeInputHandler"] = {"number_of_root_nodes": "2", "nodes_per_root_node": "6", "jitter": "0.05",
                                "dipole_separation": "0.1",
                                "charge_values": "electric_charge_values (charge_values)"}
    s["ElectricChargeValues"]["charge_values"] = "1, -1, 1, -1, 1, -1"
    s["FactorTypeMaps"]["filename"] = "@generated:" + ";".join(
        ["[%d, %d], Harmonic" % (k, k + 1) for k in range(5)] + ["[0, 6], Repulsive", "[5, 11], Coulomb"])
    s["FinalTimeEndOfRunEventHandler"]["end_of_run_time"] = "50"
    return s


def water_cell_bounded_coulomb(package_dir):
    """water/coulomb_cell_veto_lj_inverted.ini with the Coulomb interaction between far molecules treated by the cell
    bounding potential instead of the cell-veto algorithm (sections as in dipoles/cell_bounded.ini): one cell bounding
    potential is asked with the charges of the oxygen and of the hydrogens in turn."""
    s = scenario_module.load_ini(package_dir, "2018_JCP_149_064113/water/coulomb_cell_veto_lj_inverted.ini")
    s["TagActivator"]["taggers"] = s["TagActivator"]["taggers"].replace(
        "coulomb_cell_veto (cell_veto_tagger)", "coulomb_cell_veto (cell_bounding_potential_tagger)")
    s["CoulombCellVeto"]["event_handler"] = ("coulomb_cell_bounding_event_handler "
                                             "(two_composite_object_cell_bounding_potential_event_handler)")
    s["CoulombCellVeto"]["number_event_handlers"] = "1"
    s.pop("CoulombCellVetoEventHandler", None)
    s["CoulombCellBoundingEventHandler"] = {"potential": "merged_image_coulomb_potential",
                                            "bounding_potential": "cell_bounding_potential",
                                            "lifting": "inside_first_lifting", "charge": "electric_charge"}
    s["CellBoundingPotential"] = {"estimator": "dipole_monte_carlo_estimator"}
    s["DipoleMonteCarloEstimator"]["number_trials"] = "60"
    s["FinalTimeEndOfRunEventHandler"]["end_of_run_time"] = "50"
    return s


BUILDERS = {"soft_spheres": soft_spheres, "lj_atoms": lj_atoms, "hard_spheres": hard_spheres,
            "hard_disks": hard_disks, "hard_disk_dipoles": hard_disk_dipoles,
            "hard_disk_dipoles_cells": hard_disk_dipoles_cells, "cuboid_hard_cells": cuboid_hard_cells,
            "cuboid_soft": cuboid_soft, "water_motion": water_motion, "dip_atom_phase": dip_atom_phase,
            "soft_disks": soft_disks, "chain_molecules": chain_molecules,
            "water_cell_bounded_coulomb": water_cell_bounded_coulomb}


def build(package_dir, name):
    return BUILDERS[name](package_dir)
