import json, sys
sys.path.insert(0, "/verif")
CLAIMED = json.load(open("/verif/dst/claims.json"))
props = [json.loads(l) for l in open("/verif/properties.jsonl")]
checks, na = [], []
for p in props:
    pid = p["id"]
    c = CLAIMED.get(pid)
    if c and c.get("claimed"):
        checks.append({
            "property_id": pid,
            "quick_cmd": "./check %s --tier quick" % pid,
            "thorough_cmd": "./check %s --tier thorough" % pid,
            "evidence_file": "/verif/evidence/%s.json" % pid,
            "replay_cmd_template": "./check %s --replay {path}" % pid,
            "engine": c["engine"],
            "level_claimed": {"category": "exploration", "text": c["text"], "design_ref": c["design_ref"]},
            "level_note": c["note"],
            "technique": c["technique"],
        })
    else:
        na.append({"property_id": pid, "reason": (c or {}).get("reason", "check not built yet in this session; see DESIGN.md section 10 (build order)")})
manifest = {
    "version": 1,
    "setup_cmd": "true",
    "hooks": {"guard": "JELLYFYSH_VERIF", "enable": "no hooks in /repo are needed: every seam is harness-side (constructor-injected collaborators, module-level names, public methods); checks copy /repo/jellyfysh to a scratch directory and build the cffi extensions there",
              "baseline_off_cmd": "cd /repo && for s in jellyfysh/scheduler/heap_scheduler/heap_build.py jellyfysh/potential/merged_image_coulomb_potential/merged_image_coulomb_potential_build.py jellyfysh/potential/inverse_power_coulomb_bounding_potential/inverse_power_coulomb_bounding_potential_build.py; do /venv/bin/python $s >/dev/null || exit 1; done && /venv/bin/python -m pytest -ra -q -p no:cacheprovider --timeout=900 --continue-on-collection-errors",
              "source_commits": [], "add_only": True},
    "engines": json.load(open("/verif/dst/engines.json")),
    "checks": checks,
    "not_applicable": na,
    "notes": "Deterministic simulation with fault injection; see DESIGN.md. Every check rebuilds a scratch copy of /repo's working tree (rsync + cffi compile, about 2 s) and runs under PYTHONHASHSEED=0 with VERIF_SEED deciding every generated scenario, schedule and fault.",
}
json.dump(manifest, open("/verif/MANIFEST.json", "w"), indent=1)
import jsonschema
jsonschema.validate(manifest, json.load(open("/root/.vp/MANIFEST.schema.json")))
print("manifest ok:", len(checks), "checks,", len(na), "not applicable")
