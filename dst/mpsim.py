"""mpsim: the multi-process mediator under a simulated kernel (DESIGN.md section 3.5).

``multiprocessing.Process/Pipe/Event/BoundedSemaphore`` and ``connection.wait`` are replaced (module attributes of the
mediator module and of ``or_event``) by in-process objects.  Every simulated process is a real thread, but only the
holder of the baton runs; every primitive operation is a scheduling point at which the seeded scheduler picks the next
runnable process.  ``Process.start()`` has fork semantics: the child gets a deep copy of the object its target is bound
to (kernel objects are shared, not copied) and a copy of the parent's PRNG state; pipes carry pickled bytes.
"""
import copy
import pickle
import random as _random
import threading

from .seams import FACADE, HarnessError


class SimKill(BaseException):
    """Unwinds the thread of a terminated simulated process."""


class Deadlock(BaseException):
    verif_abort = True

    def __init__(self, description):
        super().__init__(description)
        self.description = description


class WorkerFailure(BaseException):
    verif_abort = True

    def __init__(self, pid, text):
        super().__init__(text)
        self.pid, self.text = pid, text


class StepBudgetExceeded(BaseException):
    verif_abort = True


class SimProcess(object):
    def __init__(self, kernel, pid, target=None, args=()):
        self.kernel = kernel
        self.pid = pid
        self.target = target
        self.args = args
        self.go = threading.Semaphore(0)
        self.thread = None
        self.started = False
        self.finished = False
        self.killed = False
        self.blocked_on = None      # callable returning True when the process may continue
        self.block_label = None
        self.stream = None
        self.error = None
        self.steps = 0

    # -- multiprocessing.Process interface --------------------------------------------------------------------------
    def start(self):
        kernel = self.kernel
        if self.started:
            raise AssertionError("process started twice")
        self.started = True
        # fork semantics: the child sees a copy of the object its target is bound to; kernel objects are shared
        target = self.target
        bound = getattr(target, "__self__", None)
        if bound is not None:
            clone = copy.deepcopy(bound)
            target = getattr(target, "__func__").__get__(clone, type(clone))
        self._run_target = target
        self.stream = _random.Random()
        self.stream.setstate(kernel.current.stream.getstate())
        self.thread = threading.Thread(target=self._main, name="sim-%d" % self.pid, daemon=True)
        kernel.processes.append(self)
        self.thread.start()
        kernel.point("start")

    def _main(self):
        self.go.acquire()
        try:
            if self.killed:
                return
            self._run_target(*self.args)
        except SimKill:
            pass
        except Deadlock as exc:
            self.kernel.deadlock = exc.description
        except StepBudgetExceeded:
            self.kernel.budget_exceeded = True
        except BaseException as exc:   # a worker raised: reported as a failure of the run
            import traceback
            self.error = "".join(traceback.format_exception(type(exc), exc, exc.__traceback__))
        finally:
            self.finished = True
            self.kernel.process_exit(self)

    def is_alive(self):
        self.kernel.point("is_alive")
        return self.started and not self.finished

    def terminate(self):
        self.kernel.point("terminate")
        if self.started and not self.finished:
            self.killed = True

    def join(self, timeout=None):
        kernel = self.kernel
        kernel.block(lambda: self.finished or not self.started, "join(%d)" % self.pid)

    def close(self):
        pass


class SimEvent(object):
    def __init__(self, kernel):
        self.kernel = kernel
        self.flag = False

    def __deepcopy__(self, memo):
        return self

    def set(self):
        self.kernel.point("event.set")
        self.flag = True

    def clear(self):
        self.kernel.point("event.clear")
        self.flag = False

    def is_set(self):
        self.kernel.point("event.is_set")
        return self.flag

    def wait(self, timeout=None):
        self.kernel.block(lambda: self.flag, "event.wait")
        return True


class SimSemaphore(object):
    def __init__(self, kernel, value):
        self.kernel = kernel
        self.value = value
        self.initial = value

    def __deepcopy__(self, memo):
        return self

    def acquire(self, block=True, timeout=None):
        self.kernel.block(lambda: self.value > 0, "semaphore.acquire")
        self.value -= 1
        self.kernel.stats["semaphore_max_in_use"] = max(self.kernel.stats.get("semaphore_max_in_use", 0),
                                                         self.initial - self.value)
        return True

    def release(self):
        self.kernel.point("semaphore.release")
        if self.value >= self.initial:
            raise ValueError("semaphore released too many times")
        self.value += 1


class SimConnection(object):
    def __init__(self, kernel, name):
        self.kernel = kernel
        self.name = name
        self.peer = None
        self.inbox = []          # list of (visible_at_step, bytes)
        self.closed_by = set()

    def __deepcopy__(self, memo):
        return self

    def send(self, obj):
        kernel = self.kernel
        kernel.point("send")
        data = pickle.dumps(obj, protocol=pickle.HIGHEST_PROTOCOL)
        delay = kernel.draw_delay()
        visible = kernel.step + delay
        if self.peer.inbox and self.peer.inbox[-1][0] > visible:
            visible = self.peer.inbox[-1][0]      # a pipe never reorders
        self.peer.inbox.append((visible, data))
        kernel.stats["messages"] = kernel.stats.get("messages", 0) + 1
        if delay:
            kernel.stats["delayed_messages"] = kernel.stats.get("delayed_messages", 0) + 1

    def ready(self):
        return bool(self.inbox) and self.inbox[0][0] <= self.kernel.step

    def earliest(self):
        return self.inbox[0][0] if self.inbox else None

    def poll(self, timeout=0.0):
        self.kernel.point("poll")
        return self.ready()

    def recv(self):
        kernel = self.kernel
        kernel.block(self.ready, "recv(%s)" % self.name, waits_for=[self])
        visible, data = self.inbox.pop(0)
        return pickle.loads(data)

    def close(self):
        # each simulated process closes its own copy of the descriptor; the object is shared, so only count
        self.closed_by.add(self.kernel.current.pid)

    def fileno(self):
        return id(self)


class SimKernel(object):
    POLICIES = ("uniform", "starve_one", "mediator_first", "workers_reverse", "sticky")

    def __init__(self, seed, policy="uniform", max_delay=0, wait_subsets=True, schedule=None, step_budget=5_000_000):
        self.rng = _random.Random(seed)
        self.policy = policy
        self.max_delay = max_delay
        self.wait_subsets = wait_subsets
        self.replay = list(schedule) if schedule is not None else None
        self.replay_pos = 0
        self.trace = []
        self.step = 0
        self.step_budget = step_budget
        self.processes = []
        self.stats = {}
        self.main = SimProcess(self, 0)
        self.main.started = True
        self.main.stream = FACADE.stream
        self.processes.append(self.main)
        self.current = self.main
        self.starved = None
        self.failed = None
        self.switches = 0
        self.trace_hash = 0
        self.next_pid = 0
        self.aux_seed = seed
        self.deadlock = None

    # -- the objects handed to the system ---------------------------------------------------------------------------
    def Process(self, target=None, args=(), kwargs=None, group=None, name=None, daemon=None):
        self.next_pid += 1
        return SimProcess(self, self.next_pid, target, args)

    def Pipe(self, duplex=True):
        a = SimConnection(self, "m%d" % (self.stats.get("pipes", 0)))
        b = SimConnection(self, "w%d" % (self.stats.get("pipes", 0)))
        self.stats["pipes"] = self.stats.get("pipes", 0) + 1
        a.peer, b.peer = b, a
        return a, b

    def Event(self):
        return SimEvent(self)

    def BoundedSemaphore(self, value=1):
        return SimSemaphore(self, value)

    def Semaphore(self, value=1):
        return SimSemaphore(self, value)

    def wait(self, object_list, timeout=None):
        """connection.wait: a non-empty subset of the ready connections, in a seeded order."""
        conns = list(object_list)
        self.block(lambda: any(c.ready() for c in conns), "connection.wait", waits_for=conns)
        ready = [c for c in conns if c.ready()]
        if self.wait_subsets and len(ready) > 1:
            chooser = _random.Random(self.aux_seed * 1000003 + self.step * 7919 + len(ready))
            chooser.shuffle(ready)
            keep = chooser.randint(1, len(ready))
            if keep < len(ready):
                self.stats["wait_returned_strict_subset"] = self.stats.get("wait_returned_strict_subset", 0) + 1
            ready = ready[:keep]
        return ready

    def draw_delay(self):
        if not self.max_delay:
            return 0
        chooser = _random.Random(self.aux_seed * 1000003 + self.step * 104729 + 17)
        return chooser.randint(0, self.max_delay) if chooser.random() < 0.5 else 0

    # -- scheduling ---------------------------------------------------------------------------------------------------
    def runnable(self):
        result = []
        for p in self.processes:
            if not p.started or p.finished:
                continue
            if p.killed:
                result.append(p)      # must run once more to unwind
                continue
            if p.blocked_on is None or p.blocked_on():
                result.append(p)
        return result

    def pick(self, candidates):
        if self.replay is not None:
            if self.replay_pos < len(self.replay):
                want = self.replay[self.replay_pos]
                self.replay_pos += 1
                for p in candidates:
                    if p.pid == want:
                        return p
                # a minimised schedule may name a process that is not runnable: keep the current one if possible
            if self.current in candidates:
                return self.current
            return candidates[0]
        policy = self.policy
        rng = self.rng
        if policy == "uniform":
            return rng.choice(candidates)
        if policy == "sticky":
            if self.current in candidates and rng.random() < 0.9:
                return self.current
            return rng.choice(candidates)
        if policy == "mediator_first":
            if self.main in candidates and rng.random() < 0.9:
                return self.main
            return rng.choice(candidates)
        if policy == "workers_reverse":
            if rng.random() < 0.85:
                return max(candidates, key=lambda p: p.pid)
            return rng.choice(candidates)
        if policy == "starve_one":
            if self.starved is None and len(self.processes) > 2:
                self.starved = rng.choice([p.pid for p in self.processes if p.pid != 0])
            others = [p for p in candidates if p.pid != self.starved]
            if others and rng.random() < 0.98:
                return rng.choice(others)
            return rng.choice(candidates)
        return rng.choice(candidates)

    def point(self, label):
        """A scheduling point of the current process (which stays runnable)."""
        self._switch(label)

    def block(self, condition, label, waits_for=None):
        me = self.current
        me.blocked_on = condition
        me.block_label = label
        me.waits_for = waits_for
        self._switch(label)
        me.blocked_on = None
        me.block_label = None
        me.waits_for = None

    def _switch(self, label):
        me = self.current
        if me.thread is not None and threading.current_thread() is not me.thread:
            raise HarnessError("kernel operation from a thread that does not hold the baton")
        if me.killed and me is not self.main:
            raise SimKill()
        self.step += 1
        me.steps += 1
        if self.step > self.step_budget:
            raise StepBudgetExceeded()
        while True:
            candidates = self.runnable()
            if candidates:
                break
            # nobody can run: let time pass until the next delayed message becomes visible
            pending = [c.earliest() for p in self.processes if p.started and not p.finished
                       for c in (getattr(p, "waits_for", None) or []) if c.earliest() is not None]
            pending = [t for t in pending if t > self.step]
            if not pending:
                raise Deadlock(self.describe())
            self.step = min(pending)
        chosen = self.pick(candidates)
        self.trace.append(chosen.pid)
        self.trace_hash = (self.trace_hash * 1000003 + chosen.pid + 1) & 0xFFFFFFFFFFFF
        if chosen is me:
            return
        self.switches += 1
        self._transfer(me, chosen)
        if me.killed and me is not self.main:
            raise SimKill()
        if me is self.main:
            self._raise_pending()

    def _raise_pending(self):
        if self.deadlock is not None:
            description, self.deadlock = self.deadlock, None
            raise Deadlock(description)
        if getattr(self, "budget_exceeded", False):
            self.budget_exceeded = False
            raise StepBudgetExceeded()
        if self.failed is not None:
            failed, self.failed = self.failed, None
            raise WorkerFailure(*failed)

    def _transfer(self, me, chosen):
        FACADE.stream = chosen.stream
        self.current = chosen
        chosen.go.release()
        me.go.acquire()
        # resumed
        self.current = me
        FACADE.stream = me.stream

    def process_exit(self, proc):
        """Called in the thread of a finishing process: hand the baton on without waiting."""
        if proc.error is not None and self.failed is None:
            self.failed = (proc.pid, proc.error)
        urgent = proc.error is not None or self.deadlock is not None or getattr(self, "budget_exceeded", False)
        if urgent and self.main.blocked_on is not None:
            # wake the mediator so that the failure surfaces instead of a deadlock report
            self.main.blocked_on = None
        candidates = self.runnable()
        if not candidates:
            # nothing else can run: give the baton back to the main process, which will report the state
            candidates = [self.main]
            self.main.blocked_on = None
            self.deadlock_after_exit = True
        chosen = self.pick(candidates) if len(candidates) > 1 else candidates[0]
        if urgent:
            chosen = self.main
        self.trace.append(chosen.pid)
        self.switches += 1
        FACADE.stream = chosen.stream
        self.current = chosen
        chosen.go.release()

    def describe(self):
        return [{"pid": p.pid, "started": p.started, "finished": p.finished, "blocked_on": p.block_label}
                for p in self.processes]

    def shutdown(self):
        """Kill whatever is still alive (harness cleanup after the run); returns the pids that were still alive."""
        alive = [p for p in self.processes if p is not self.main and p.started and not p.finished]
        for p in alive:
            p.killed = True
        for p in alive:
            if p.finished:
                continue
            me = self.main
            self.current = p
            FACADE.stream = p.stream
            # the dying thread hands the baton back through process_exit
            self.main.blocked_on = None
            p.go.release()
            me.go.acquire()
            self.current = me
            FACADE.stream = me.stream
        for p in alive:
            if p.thread is not None:
                p.thread.join(timeout=5)
        return [p.pid for p in alive]


class MultiprocessingFacade(object):
    """Installed as the module attribute ``multiprocessing`` of the mediator module."""

    def __init__(self, kernel):
        self._kernel = kernel
        self.Process = kernel.Process
        self.Pipe = kernel.Pipe
        self.Event = kernel.Event
        self.BoundedSemaphore = kernel.BoundedSemaphore
        self.Semaphore = kernel.Semaphore


class ConnectionFacade(object):
    def __init__(self, kernel):
        self.wait = kernel.wait


class Installed(object):
    """Context manager that swaps the module attributes for the duration of one simulated run."""

    def __init__(self, kernel):
        self.kernel = kernel

    def __enter__(self):
        import jellyfysh.mediator.multi_process_mediator.multi_process_mediator as mpm
        import jellyfysh.mediator.multi_process_mediator.or_event as or_event
        self.mpm, self.or_event = mpm, or_event
        self.saved = (mpm.multiprocessing, mpm.connection, or_event.Event)
        mpm.multiprocessing = MultiprocessingFacade(self.kernel)
        mpm.connection = ConnectionFacade(self.kernel)
        or_event.Event = self.kernel.Event
        return self.kernel

    def __exit__(self, *exc):
        self.mpm.multiprocessing, self.mpm.connection, self.or_event.Event = self.saved
        return False
