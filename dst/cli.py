"""Entry point: check <ID> [--tier quick|thorough] [--replay FILE]."""
import argparse
import os
import sys
import warnings

sys.path.insert(0, os.path.dirname(os.path.dirname(os.path.abspath(__file__))))
warnings.filterwarnings("ignore")


def main():
    parser = argparse.ArgumentParser()
    parser.add_argument("prop")
    parser.add_argument("tier_or_spec", nargs="?")
    parser.add_argument("--tier", default=os.environ.get("VERIF_TIER", "quick"), choices=["quick", "thorough"])
    parser.add_argument("--replay")
    parser.add_argument("--workers", type=int, default=0)
    args = parser.parse_args()
    if args.prop.startswith("_") and args.prop.endswith("-child"):
        # a child interpreter never outlives the worker that started it (the worker may be ended by its own watchdog
        # while the child is stuck in C code), and never runs longer than its own watchdog allows
        import ctypes
        import faulthandler
        import signal
        try:
            ctypes.CDLL(None, use_errno=True).prctl(1, signal.SIGKILL)      # PR_SET_PDEATHSIG
        except Exception:
            pass
        faulthandler.dump_traceback_later(int(os.environ.get("VERIF_CHILD_TIMEOUT", "420")), exit=True)
    if args.prop == "_digest-child":
        from dst import selftest
        return selftest.child_main(args.tier_or_spec)
    if args.prop == "_schedsim-child":
        from dst.props import c06
        return c06.child_main(args.tier_or_spec)
    if args.prop == "_resume-child":
        from dst import crashsim
        return crashsim.child_main(args.tier_or_spec)
    seed = int(os.environ.get("VERIF_SEED", "0"))
    import logging
    logging.disable(logging.CRITICAL)
    from dst import build, boot, seams, driver
    try:
        scratch = build.scratch_build(asan=bool(os.environ.get("VERIF_ASAN_BUILD")))
        package_dir = build.activate(scratch)
        boot.import_all(package_dir)
        seams.install()
    except Exception as exc:
        import traceback
        traceback.print_exc()
        print("HARNESS ERROR: build/import of /repo's working tree failed: %r" % (exc,), file=sys.stderr)
        return 2
    if args.prop == "selftest":
        from dst import selftest
        return selftest.run(package_dir, seed, count=256 if args.tier == "thorough" else 64)
    prop_id = args.prop.upper()
    if args.replay:
        return driver.run_replay(prop_id, args.replay, package_dir)
    return driver.run_check(prop_id, args.tier, seed, package_dir, workers=args.workers or None)


if __name__ == "__main__":
    sys.exit(main())
