"""Factory for the run-level property modules (engine runsim): each property differs in its monitors, families,
budgets and non-triviality rule."""
from . import common


def make(namespace, ident, monitors, families=None, counts=None, events=None, budget=None, rule="", nontrivial=None,
         assumptions=(), vary=True, crash_anchor_files=None, construction_anchor_files=None):
    counts = counts or {"quick": 96, "thorough": 2400}
    events = events or {"quick": 1500, "thorough": 4000}
    budget = budget or {"quick": {"wall": 75, "task_timeout": 240}, "thorough": {"wall": 900, "task_timeout": 600}}
    nontrivial = nontrivial or (lambda result: result.events >= 50)

    def plan(tier, master_seed):
        return common.plan_runs(ident, tier, master_seed, counts, families=families, events=events, vary=vary)

    def execute(task, package_dir):
        return common.execute_runsim(task, package_dir, monitors, ident, nontrivial,
                                     crash_anchor_files=crash_anchor_files,
                                     construction_anchor_files=construction_anchor_files)

    namespace.update({"ID": ident, "LEVEL": "exploration", "BUDGET": budget, "RULE": rule,
                      "ASSUMPTIONS": list(assumptions), "REAL_CODE": common.REAL_CODE, "STUBBED": common.STUBBED,
                      "plan": plan, "execute": execute})
