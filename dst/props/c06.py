"""C06 Scheduler always yields a live event with the smallest candidate time (engine schedsim)."""
import json
import os
import random
import subprocess
import sys
import tempfile

from .. import schedsim, build
from ..driver import derive_seed

ID = "C06"
LEVEL = "exploration"
BUDGET = {"quick": {"wall": 90, "task_timeout": 600}, "thorough": {"wall": 1500, "task_timeout": 1500}}
BATCHES = {"quick": 48, "thorough": 640}
PER_BATCH = {"quick": 40, "thorough": 150}
ASAN_BATCHES = {"quick": 8, "thorough": 64}
LENGTH = {"quick": 300, "thorough": 600}
RULE = ("seeded histories of push / trash / get / get-then-trash / dill round trip / deletion-counter fast-forward "
        "(to 2**32-k, k<=3) / directed fills to heap-capacity boundaries over 1-400 handlers, respecting the mediator "
        "protocol (one live event per handler, times >= last returned time, pools with equal quotients, equal "
        "remainders, exact ties, +inf), executed on HeapScheduler, ListScheduler and a dictionary model; a subset of "
        "the batches runs in a child interpreter against an AddressSanitizer/UBSan build of heap.c; a history is "
        "non-trivial if it performed >= 20 gets; distinct = distinct history seeds")
ASSUMPTIONS = ["counter fast-forward writes the heap scheduler's private valid-counter map (only upwards, only for a "
               "handler without a live event: equivalent to that many trashes); unavailable -> fault kind reported",
               "allocation failure is not injected (not part of the property's quantifier)"]
REAL_CODE = "HeapScheduler + heap.c (cffi), ListScheduler, base.time.Time, dill pickling of both schedulers"
STUBBED = "event handlers are plain stand-in objects (the schedulers only need identity)"
DISTINCT_MEASURE = "distinct (history style, handlers, length, seed) tuples"


def plan(tier, master_seed):
    tasks = []
    for index in range(BATCHES[tier]):
        tasks.append({"engine": "schedsim", "index": index, "rng_seed": derive_seed(master_seed, ID, index),
                      "histories": PER_BATCH[tier], "length": LENGTH[tier], "asan": False})
    from . import common
    from .. import gen as _gen
    run_families = [name for name, spec in _gen.FAMILIES.items() if not spec.get("special")] + ["atoms_power_huge"]
    for t in common.plan_runs(ID + "run", tier, master_seed, {"quick": 32, "thorough": 400}, families=run_families,
                              events={"quick": 1200, "thorough": 3000}):
        t["index"] += 10 ** 6
        tasks.append(t)
    for index in range(ASAN_BATCHES[tier]):
        tasks.append({"engine": "schedsim", "index": BATCHES[tier] + index,
                      "rng_seed": derive_seed(master_seed, ID + "asan", index),
                      "histories": max(10, PER_BATCH[tier] // 2), "length": LENGTH[tier], "asan": True})
    return tasks


def make_history(seed, length):
    rng = random.Random(seed)
    n_handlers = rng.choice([1, 2, 3, 5, 8, 20, 70, 130, 400])
    ops = schedsim.generate(rng, rng.randint(length // 3, length), n_handlers)
    return n_handlers, ops


def run_batch(task, stats):
    """Run the histories of a batch in this process; returns (violations, gets per history)."""
    violations = []
    nontrivial = 0
    if "history" in task:
        cases = [(task["history"]["n_handlers"], task["history"]["ops"], task["history"].get("seed"))]
    else:
        rng = random.Random(task["rng_seed"])
        cases = []
        for _ in range(task["histories"]):
            seed = rng.getrandbits(48)
            n_handlers, ops = make_history(seed, task["length"])
            cases.append((n_handlers, ops, seed))
    sample = None
    for n_handlers, ops, seed in cases:
        before = stats.get("get", 0)
        try:
            schedsim.run_history(ops, n_handlers, stats)
        except schedsim.Failure as failure:
            violations.append({"property": ID, "oracle": failure.oracle, "step": failure.index,
                               "detail": dict(failure.detail, history_seed=seed, n_handlers=n_handlers),
                               "history": {"n_handlers": n_handlers, "ops": ops[:failure.index + 1], "seed": seed}})
            break
        except Exception as exc:
            import traceback
            text = "".join(traceback.format_exception(type(exc), exc, exc.__traceback__))
            here = os.path.dirname(os.path.dirname(os.path.abspath(__file__)))
            tb = traceback.extract_tb(exc.__traceback__)
            if tb and os.path.abspath(tb[-1].filename).startswith(here):
                raise
            violations.append({"property": ID, "oracle": "crash", "step": 0,
                               "detail": {"traceback": text[-2000:], "history_seed": seed},
                               "history": {"n_handlers": n_handlers, "ops": ops, "seed": seed}})
            break
        if stats.get("get", 0) - before >= 20:
            nontrivial += 1
        if sample is None:
            sample = {"n_handlers": n_handlers, "history_prefix": ops[:12], "operations": len(ops)}
    return violations, nontrivial, len(cases), sample


def child_main(spec_path):
    """Runs inside the ASan interpreter."""
    with open(spec_path) as f:
        spec = json.load(f)
    package_dir = build.activate(spec["scratch"])
    stats = {}
    violations, nontrivial, count, sample = run_batch(spec["task"], stats)
    with open(spec["result"], "w") as f:
        json.dump({"violations": violations, "nontrivial": nontrivial, "count": count, "stats": stats,
                   "sample": sample}, f)
    return 0


_ASAN = {}


def asan_scratch():
    """One ASan/UBSan build of the scratch copy per check process (built lazily in the worker that needs it)."""
    if "dir" not in _ASAN:
        _ASAN["dir"] = build.scratch_build(asan=True)
    return _ASAN["dir"]


def execute(task, package_dir):
    """Every batch runs in a child interpreter, so that memory corruption in heap.c (a crash of the interpreter) is a
    verdict about the system and not a failure of the harness."""
    if task.get("engine") == "runsim":
        from . import common
        from ..monitors.schedshadow import SchedulerShadow
        out = common.execute_runsim(task, package_dir, [SchedulerShadow], ID,
                                    lambda r: r.probes.get("run_gets_checked", 0) >= 50)
        out["nontrivial_count"] = 1 if out.get("nontrivial") else 0
        out["evaluations"] = 1
        return out
    summary = {"status": "ok", "violations": [], "probes": {}, "faults": {}, "distinct": [], "events": 0}
    stats = {}
    asan = bool(task.get("asan"))
    scratch = asan_scratch() if asan else os.path.dirname(package_dir)
    work = tempfile.mkdtemp(prefix="jfsched-")
    try:
        spec = {"scratch": scratch, "task": task, "result": os.path.join(work, "result.json")}
        spec_path = os.path.join(work, "spec.json")
        with open(spec_path, "w") as f:
            json.dump(spec, f)
        env = dict(os.environ, PYTHONDONTWRITEBYTECODE="1")
        if asan:
            libasan = subprocess.run(["gcc", "-print-file-name=libasan.so"], stdout=subprocess.PIPE,
                                     check=True).stdout.decode().strip()
            env.update(LD_PRELOAD=libasan, ASAN_OPTIONS="detect_leaks=0:exitcode=97:abort_on_error=0",
                       UBSAN_OPTIONS="halt_on_error=1:exitcode=98:print_stacktrace=1")
        cli = os.path.join(os.path.dirname(os.path.dirname(os.path.abspath(__file__))), "cli.py")
        try:
            proc = subprocess.run([sys.executable, "-B", cli, "_schedsim-child", spec_path], env=env,
                                  stdout=subprocess.PIPE, stderr=subprocess.PIPE, timeout=480)
        except subprocess.TimeoutExpired:
            summary["status"] = "harness_error"
            summary["error"] = "schedsim child did not finish within 480 s (killed)"
            return summary
        err = proc.stderr.decode(errors="replace")
        sanitizer = "AddressSanitizer" in err or "runtime error:" in err
        if proc.returncode != 0 or sanitizer:
            if sanitizer or proc.returncode in (97, 98) or proc.returncode < 0:
                summary["violations"].append({
                    "property": ID, "oracle": "sanitizer_report" if sanitizer else "interpreter_killed_by_signal",
                    "step": 0, "detail": {"exit": proc.returncode, "asan_build": asan, "report": err[-3000:]}})
                summary["status"] = "violation"
                summary["resolved_task"] = task
                return summary
            summary["status"] = "harness_error"
            summary["error"] = "schedsim child failed (exit %s): %s" % (proc.returncode, err[-2000:])
            return summary
        with open(spec["result"]) as f:
            out = json.load(f)
        violations, nontrivial, count, sample = out["violations"], out["nontrivial"], out["count"], out["sample"]
        stats = out["stats"]
        if asan:
            stats["histories_under_asan_ubsan"] = count
    finally:
        import shutil
        shutil.rmtree(work, ignore_errors=True)
    for v in violations:
        history = v.pop("history", None)
        summary["violations"].append(v)
        summary["status"] = "violation"
        summary["resolved_task"] = dict(task, history=history, histories=1)
    summary["probes"] = {k: v for k, v in stats.items() if not k.startswith("counter_") and k != "pickle_round_trip"}
    summary["faults"] = {k: v for k, v in stats.items() if k.startswith("counter_") or k == "pickle_round_trip"
                         or k.startswith("directed_fill") or k.startswith("overflow_push")}
    summary["events"] = stats.get("get", 0)
    summary["nontrivial"] = nontrivial >= 1
    summary["nontrivial_count"] = nontrivial
    summary["evaluations"] = count
    summary["distinct"] = ["%d/%d" % (task["rng_seed"], i) for i in range(count)]
    summary["sample"] = sample
    return summary


def distinct_nontrivial(summaries):
    return sum(s.get("nontrivial_count", 0) for s in summaries)


def extra_coverage(summaries):
    return {"evaluations": sum(s.get("evaluations", 0) for s in summaries),
            "batches": len(summaries),
            "operations": sum(sum(v for k, v in s.get("probes", {}).items() if k in ("push", "trash", "get"))
                              for s in summaries)}


def shrink_candidates(task, violation):
    """ddmin over the operation list of the failing history, then drop handlers' indices is left to the reader."""
    history = task.get("history")
    if not history:
        return
    ops = history["ops"]
    n = len(ops)
    for chunks in (2, 4, 8, 16):
        size = max(1, n // chunks)
        for start in range(0, n, size):
            t = json.loads(json.dumps(task))
            t["history"]["ops"] = ops[:start] + ops[start + size:]
            if len(t["history"]["ops"]) < n:
                yield t
