"""C04 Thinning is sound: the bounding rate dominates and acceptance is the exact ratio."""
from .runprops import make
from ..monitors.thinning import Thinning

make(globals(), "C04", [Thinning],
     families=["atoms_power", "atoms_power_many", "atoms_cellb", "atoms_cellv", "dip_atom", "dip_in", "dip_out", "dip_ratio",
               "dip_motion", "dip_motion_ff", "water_motion", "dip_cellb", "dip_cellv", "water_vv", "water_vi", "water_pb",
               "water_pi"],
     rule=("seeded whole runs of every configuration that proposes from the scaled nearest-image 1/r bound; (a) at "
           "every separation a run visits (all pairs of every in-state at send_event_time, and the event "
           "configuration) bound >= true rate from separately constructed potential objects, any "
           "bounding_potential_warning of such a handler is a violation; (b) the confirmation draw uniform(0, B) seen "
           "at the PRNG seam against the independently recomputed true rate decides accept/reject exactly (a random "
           "subset of the draws is forced near 0 and near B); for the root-mode handler (a composite object moving as a "
           "whole) true rate and bound are the sums over all pairs of leaf units at their nearest images and the "
           "domination is judged per pair; a candidate drawn from a cell bounding potential must be confirmed against "
           "the very rate it was drawn from (budget / time displacement at the potential seam); (c) an unconfirmed "
           "event changes no velocity; "
           "non-trivial = >= 20 confirmation decisions judged"),
     nontrivial=lambda r: r.probes.get("c04_confirmation_decisions", 0) >= 20,
     assumptions=["bounds that are not claimed to be true bounds (cell-bounding estimators, piecewise-constant "
                  "bounds) are judged for the acceptance rule only", "decisions with |draw - rate| <= 1e-9 B are "
                  "skipped and counted"])
