"""C07 Particles move continuously at recorded velocity; events only hand velocity over."""
from . import common
from ..monitors.kinematics import Kinematics

ID = "C07"
LEVEL = "exploration"
BUDGET = {"quick": {"wall": 75, "task_timeout": 240}, "thorough": {"wall": 900, "task_timeout": 600}}
COUNTS = {"quick": 96, "thorough": 2400}
EVENTS = {"quick": 1500, "thorough": 4000}
RULE = ("seeded whole runs of the real single-process mediator on shipped configurations with swarm-varied knobs "
        "(units, scheduler, cells, occupant limits, chain/sampling times, initial active unit and direction); a run "
        "is non-trivial if it committed at least 50 events including a velocity hand-over between different units; "
        "distinct = distinct scenario+seed")
ASSUMPTIONS = ["positions compared modulo the box with tolerance 1e-9*L, speeds 1e-9 relative",
               "inputs no history produces (positions exactly on a box face) are out of reach"]
REAL_CODE = common.REAL_CODE
STUBBED = common.STUBBED


def plan(tier, master_seed):
    return common.plan_runs(ID, tier, master_seed, COUNTS, events=EVENTS)


def _nontrivial(result):
    return result.events >= 50 and (result.kinds.get("interaction", 0) + result.kinds.get("cell_veto", 0)) > 0


def execute(task, package_dir):
    summary = common.execute_runsim(task, package_dir, [Kinematics], ID, _nontrivial)
    summary["task_resolved"] = True
    return summary
