"""C03 Reported event rates are the directional derivative of the model energy."""
import functools
from .runprops import make
from ..monitors.potentials import Potentials

make(globals(), "C03", [functools.partial(Potentials, props=("C03",))],
     rule=("every call of Potential.derivative made by real event handlers during seeded whole runs is compared with "
           "a central finite difference of an independent energy function (closed forms; for the periodic Coulomb "
           "potential a brute-force Ewald sum with its own splitting parameter and larger cut-offs, 1 call in 40; "
           "bending: all three per-unit derivatives and their sum); periodicity and oddness of the Coulomb "
           "derivative are checked on the same observed arguments; the deep copy and the dill round trip of every "
           "potential object answer 1 call in 25 as well and must agree with the original; non-trivial = run with "
           ">= 30 judged calls"),
     nontrivial=lambda r: sum(v for k, v in r.probes.items() if k.startswith("c03_") and k.endswith("_checked")) >= 30,
     crash_anchor_files=["/potential/", "/base/vectors.py"],
     assumptions=["tolerance 1e-6 relative for closed forms, 1e-5 for the lattice sum (finite-difference error "
                  "dominates)"])
