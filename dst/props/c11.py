"""C11 The cell-occupancy bookkeeping always mirrors the true particle positions."""
import functools
from .runprops import make
from ..monitors.cells import Cells

make(globals(), "C11", [functools.partial(Cells, props=("C11",))],
     families=["atoms_cellb", "atoms_cellv", "dip_cellb", "dip_cellv", "water_vv", "water_vi", "water_pb",
               "hdd_cells", "cuboid_cells", "dense_cells"],
     rule=("seeded whole runs of configurations with a cell system; full recount of the occupancy after every "
           "activator update, active cell against the trajectory at every commit; non-trivial = a cell-boundary "
           "event and >= 50 recounts"),
     nontrivial=lambda r: r.probes.get("c11_occupancy_recounts", 0) >= 50
     and r.probes.get("c11_cell_boundary_events", 0) > 0)
