"""C13 In-states are isolated copies; only commits change the global state (run part; statesim adds histories)."""
from .runprops import make
from ..monitors.isolation import Isolation

make(globals(), "C13", [Isolation],
     rule=("run part: seeded whole runs; before every commit the global state equals the snapshot taken after the "
           "previous commit, every extracted branch has the node, its ancestors and all descendants with current "
           "values, the active part equals the independent-active rule; non-trivial = >= 50 events"),
     nontrivial=lambda r: r.events >= 50 and r.probes.get("c13_extractions_checked", 0) > 50)
