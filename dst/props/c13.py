"""C13 In-states are isolated copies; only commits change the global state (statesim histories + run part)."""
import json
import os
import random

from . import common
from .. import statesim
from ..driver import derive_seed
from ..monitors.isolation import Isolation

ID = "C13"
LEVEL = "exploration"
BUDGET = {"quick": {"wall": 80, "task_timeout": 300}, "thorough": {"wall": 900, "task_timeout": 900}}
RUNS = {"quick": 64, "thorough": 1200}
EVENTS = {"quick": 1500, "thorough": 4000}
BATCHES = {"quick": 32, "thorough": 640}
PER_BATCH = {"quick": 60, "thorough": 150}
RULE = ("(1) statesim: seeded histories of extract / mutate (position, velocity, time stamp in place and by "
        "replacement, start, stop, aliasing of velocity and time-stamp objects between units) / insert / drop / "
        "extract-active / extract-global by 2-5 interleaved clients on the real TreeStateHandler with 1-2 levels, 1-6 "
        "roots, 1-4 children, against a copy-on-extract reference model, all invariants after every operation; (2) "
        "run part: whole runs with the snapshot oracle before every commit and shape/value checks of every extracted "
        "branch; non-trivial = history with >= 5 inserts, or run with >= 50 events")
ASSUMPTIONS = ["a branch is never mutated after it has been inserted (the property speaks about the time before)",
               "the active-part oracle is evaluated only while roots carry a velocity exactly when a member does"]
REAL_CODE = "TreeStateHandler, TreePhysicalState, TreeLiftingState, Node, Unit, Time; in the run part everything"
STUBBED = "statesim clients stand in for event handlers (they only hold, mutate and insert branches)"
DISTINCT_MEASURE = "distinct history seeds / 4-grams of event kinds in runs"


def plan(tier, master_seed):
    tasks = common.plan_runs(ID, tier, master_seed, RUNS, events=EVENTS)
    for index in range(BATCHES[tier]):
        tasks.append({"engine": "statesim", "index": 10 ** 6 + index,
                      "rng_seed": derive_seed(master_seed, ID + "state", index), "histories": PER_BATCH[tier]})
    return tasks


def execute(task, package_dir):
    if task.get("engine") == "runsim":
        out = common.execute_runsim(task, package_dir, [Isolation], ID,
                                    lambda r: r.events >= 50 and r.probes.get("c13_extractions_checked", 0) > 50)
        out["nontrivial_count"] = 1 if out.get("nontrivial") else 0
        out["evaluations"] = 1
        return out
    summary = {"status": "ok", "violations": [], "probes": {}, "faults": {}, "distinct": [], "events": 0}
    stats = {}
    if "history" in task:
        cases = [(task["history"]["header"], task["history"]["ops"])]
    else:
        rng = random.Random(task["rng_seed"])
        cases = [statesim.generate(random.Random(rng.getrandbits(48)), rng.randint(20, 250))
                 for _ in range(task["histories"])]
    nontrivial = 0
    sample = None
    for header, ops in cases:
        before = stats.get("insert", 0)
        try:
            statesim.run_history(header, ops, stats)
        except statesim.Failure as failure:
            summary["violations"].append({"property": ID, "oracle": failure.oracle, "step": failure.index,
                                          "detail": dict(failure.detail, header=header)})
            summary["status"] = "violation"
            summary["resolved_task"] = dict(task, history={"header": header, "ops": ops[:failure.index + 1]})
            break
        except Exception as exc:
            import traceback
            tb = traceback.extract_tb(exc.__traceback__)
            here = os.path.dirname(os.path.dirname(os.path.abspath(__file__)))
            if tb and os.path.abspath(tb[-1].filename).startswith(here):
                raise
            summary["violations"].append({"property": ID, "oracle": "crash", "step": 0, "detail": {
                "traceback": "".join(traceback.format_exception(type(exc), exc, exc.__traceback__))[-2000:]}})
            summary["status"] = "violation"
            summary["resolved_task"] = dict(task, history={"header": header, "ops": ops})
            break
        if stats.get("insert", 0) - before >= 5:
            nontrivial += 1
        if sample is None:
            sample = {"header": header, "history_prefix": ops[:10], "operations": len(ops)}
    from ..runsim import reset_globals
    reset_globals()
    summary["probes"] = {"statesim_" + k: v for k, v in stats.items()}
    summary["events"] = 0
    summary["nontrivial"] = nontrivial >= 1
    summary["nontrivial_count"] = nontrivial
    summary["evaluations"] = len(cases)
    summary["distinct"] = ["h%d/%d" % (task.get("rng_seed", 0), i) for i in range(len(cases))]
    summary["sample"] = sample
    return summary


def distinct_nontrivial(summaries):
    return sum(s.get("nontrivial_count", 0) for s in summaries)


def extra_coverage(summaries):
    return {"evaluations": sum(s.get("evaluations", 0) for s in summaries)}


def shrink_candidates(task, violation):
    history = task.get("history")
    if not history:
        from ..driver import default_shrink_candidates
        for t in default_shrink_candidates(task, violation):
            yield t
        return
    ops = history["ops"]
    n = len(ops)
    for chunks in (2, 4, 8, 16):
        size = max(1, n // chunks)
        for start in range(0, n - 1, size):
            t = json.loads(json.dumps(task))
            t["history"]["ops"] = ops[:start] + ops[start + size:]
            if len(t["history"]["ops"]) < n:
                yield t
