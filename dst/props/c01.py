"""C01 Sampled configurations follow the Boltzmann distribution of the configured model (statistical oracle)."""
import bisect
import json
import math
import os
import random
import shutil

from . import common
from .. import runsim, scenario as scenario_module
from ..driver import derive_seed

ID = "C01"
LEVEL = "exploration"
BUDGET = {"quick": {"wall": 240, "task_timeout": 900}, "thorough": {"wall": 7200, "task_timeout": 7000}}
RUNS = {"quick": 48, "thorough": 160}           # independent runs per variant
Z_LIMIT = 7.0          # |difference| / standard error, frozen (see DESIGN.md section 9)
EPS_REF = 2.5e-3       # resolution of the tabulated references / grid integration
BURN_IN = 30           # samples discarded at the start of every run (random initial configurations)
LEVELS = [0.05 * i for i in range(1, 20)]

RULE = ("for every algorithmic variant R independent seeded runs (random initial configurations) are executed with "
        "the real output handlers; the observables are read back from the files they write; per run the empirical "
        "CDF at the 19 reference levels 0.05..0.95 is formed, per variant the mean over runs and its standard error "
        "(independent runs, no autocorrelation model needed); oracle: |mean CDF - reference CDF| <= 7 * sqrt(SE^2 + "
        "eps^2) against (1) the shipped reference tables, (2) harness-computed exact references (grid integration "
        "of exp(-beta U) over the minimum-image cube, r dr for the hard-disk dipole bond, excluded volume for hard "
        "disks), (3) all variants of one model against each other (five-atom systems with several event handlers "
        "per tagger only this way; the cell-veto water variants only this way and over one common time window with a "
        "variant of the same process in law, because two water molecules need several thousand time units to "
        "equilibrate; the two cheap water variants against the table after a burn-in of 3000 time units); samples "
        "inside a hard core are violations "
        "outright; a variant is non-trivial if it contributed >= 2000 samples after burn-in")
ASSUMPTIONS = ["statistical: effect sizes below about 7 standard errors (reported per variant) are invisible",
               "thresholds frozen: z-limit 7 on means over >= 48 independent runs, eps 2.5e-3",
               "harness pair systems use potentials negligible at half the box length and short chains",
               "burn-in: 30 samples (the two-particle systems in boxes of length 1 relax within a few samples); two "
               "water molecules in a box of length 10: 1120 samples = 3000 time units (measured relaxation about 1000 "
               "time units; a bound pair produces several times more events per time unit than the random start), cell-veto water variants are not compared with the table at all"]
REAL_CODE = common.REAL_CODE + "; SeparationOutputHandler, BondLengthAndAngleOutputHandler, " \
                               "OxygenOxygenSeparationOutputHandler, PolarizationOutputHandler and the files they write"
STUBBED = common.STUBBED
DISTINCT_MEASURE = "distinct (variant, run seed)"

P = "2018_JCP_149_064113/"
VARIANTS = {
    # name: base, overrides, observable files (suffix -> reference), simulated time per run by tier, group
    "atoms_power_heap": {"base": P + "coulomb_atoms/power_bounded.ini", "time": {"quick": 260, "thorough": 1500},
                         "group": "atoms", "obs": {"": "ref:" + P + "coulomb_atoms/ReferenceDataCoulombAtoms.dat"}},
    "atoms_power_list": {"base": P + "coulomb_atoms/power_bounded.ini", "time": {"quick": 260, "thorough": 1500},
                         "set": {"SingleProcessMediator": {"scheduler": "list_scheduler"}},
                         "group": "atoms", "obs": {"": "ref:" + P + "coulomb_atoms/ReferenceDataCoulombAtoms.dat"}},
    "atoms_cell_bounded": {"base": P + "coulomb_atoms/cell_bounded.ini", "time": {"quick": 160, "thorough": 800},
                           "group": "atoms", "obs": {"": "ref:" + P + "coulomb_atoms/ReferenceDataCoulombAtoms.dat"}},
    "atoms_cell_veto": {"base": P + "coulomb_atoms/cell_veto.ini", "time": {"quick": 0, "thorough": 90},
                        "group": "atoms", "obs": {"": "ref:" + P + "coulomb_atoms/ReferenceDataCoulombAtoms.dat"}},
    # five atoms: no tabulated reference, the variants are compared with each other only (several event handlers per
    # tagger, several candidates of one tagger scheduled at once)
    "atoms5_power": {"base": P + "coulomb_atoms/power_bounded.ini", "time": {"quick": 100, "thorough": 600},
                     "group": "atoms5", "roots": 5, "cross_only": True,
                     "obs": {"": "ref:" + P + "coulomb_atoms/ReferenceDataCoulombAtoms.dat"}},
    "atoms5_cell_bounded": {"base": P + "coulomb_atoms/cell_bounded.ini", "time": {"quick": 100, "thorough": 500},
                            "group": "atoms5", "roots": 5, "cross_only": True,
                            "obs": {"": "ref:" + P + "coulomb_atoms/ReferenceDataCoulombAtoms.dat"}},
    "atoms5_cell_veto": {"base": P + "coulomb_atoms/cell_veto.ini", "time": {"quick": 0, "thorough": 60},
                         "group": "atoms5", "roots": 5, "cross_only": True,
                         "obs": {"": "ref:" + P + "coulomb_atoms/ReferenceDataCoulombAtoms.dat"}},
    "dip_atom_factors": {"base": P + "dipoles/atom_factors.ini", "time": {"quick": 150, "thorough": 900},
                         "group": "dipoles"},
    "dip_inside_first": {"base": P + "dipoles/dipole_factors_inside_first.ini",
                         "time": {"quick": 120, "thorough": 700}, "group": "dipoles"},
    "dip_outside_first": {"base": P + "dipoles/dipole_factors_outside_first.ini",
                          "time": {"quick": 120, "thorough": 700}, "group": "dipoles"},
    "dip_ratio": {"base": P + "dipoles/dipole_factors_ratio.ini", "time": {"quick": 150, "thorough": 900},
                  "group": "dipoles"},
    "dip_motion": {"base": P + "dipoles/dipole_motion.ini", "time": {"quick": 160, "thorough": 700},
                   "group": "dipoles"},
    "dip_motion_list": {"base": P + "dipoles/dipole_motion.ini", "time": {"quick": 0, "thorough": 700},
                        "set": {"SingleProcessMediator": {"scheduler": "list_scheduler"}}, "group": "dipoles"},
    "dip_cell_bounded": {"base": P + "dipoles/cell_bounded.ini", "time": {"quick": 0, "thorough": 400},
                         "group": "dipoles"},
    "dip_cell_veto": {"base": P + "dipoles/cell_veto.ini", "time": {"quick": 0, "thorough": 40},
                      "group": "dipoles"},
    "water_single": {"base": P + "water/single_molecule.ini", "time": {"quick": 500, "thorough": 4000},
                     "group": "water_one",
                     "obs": {"_Length": "ref:" + P + "water/ReferenceLengthSingleMolecule.dat",
                             "_Angle": "ref:" + P + "water/ReferenceAngleSingleMolecule.dat"}},
    # two water molecules in a box of length 10: from the random initial configuration the pair needs several thousand
    # time units to reach the stationary distribution (measured: the CDF at the 0.75 level of the reference rises from
    # 0.1 to its plateau over about 3000 time units), so the comparison with the tabulated reference is made on
    # runs of 6000 time units after a burn-in of 3000 (sampling interval 2.6789), for the two variants that are cheap
    # enough; the cell-veto variants are compared over the same (transient) time window with the cell-bounded variant,
    # which realises the same process in law (same factors, same lifting), and not with the table
    "water_pb_lj_inverted": {"base": P + "water/coulomb_power_bounded_lj_inverted.ini",
                             "time": {"quick": 0, "thorough": 6000}, "group": "water",
                             "runs": {"quick": 0, "thorough": 48}, "burn_in": 1120,
                             "obs": {"": "ref:" + P + "water/ReferenceOOSeparation.dat"}},
    "water_pb_lj_cell_bounded": {"base": P + "water/coulomb_power_bounded_lj_cell_bounded.ini",
                                 "time": {"quick": 0, "thorough": 6000}, "group": "water",
                                 "runs": {"quick": 0, "thorough": 48}, "burn_in": 1120,
                                 "obs": {"": "ref:" + P + "water/ReferenceOOSeparation.dat"}},
    "water_pb_lj_cell_bounded_transient": {"base": P + "water/coulomb_power_bounded_lj_cell_bounded.ini",
                                           "time": {"quick": 0, "thorough": 60}, "group": "water_transient",
                                           "cross_only": True, "burn_in": 0,
                                           "obs": {"": "ref:" + P + "water/ReferenceOOSeparation.dat"}},
    "water_cv_lj_inverted": {"base": P + "water/coulomb_cell_veto_lj_inverted.ini",
                             "time": {"quick": 0, "thorough": 60}, "group": "water_transient",
                             "cross_only": True, "burn_in": 0,
                             "obs": {"": "ref:" + P + "water/ReferenceOOSeparation.dat"}},
    "water_cv_lj_cell_veto": {"base": P + "water/coulomb_cell_veto_lj_cell_veto.ini",
                              "time": {"quick": 0, "thorough": 60}, "group": "water_transient",
                              "cross_only": True, "burn_in": 0,
                              "obs": {"": "ref:" + P + "water/ReferenceOOSeparation.dat"}},
    "hard_disk_dipole": {"base": "hard_disk_dipoles/single_hard_disk_dipole.ini",
                         "time": {"quick": 1500, "thorough": 9000}, "group": "hdd", "obs": {"": "exact:bond"}},
    "soft_two": {"base": "harness:soft_spheres", "time": {"quick": 260, "thorough": 1500}, "group": "soft",
                 "set": {"SingleIndependentActivePeriodicDirectionEndOfChainEventHandler": {"chain_time": "0.2"},
                         "FixedIntervalSamplingEventHandler": {"sampling_interval": "0.5"}},
                 "obs": {"": "exact:pair"}},
    "soft_two_list": {"base": "harness:soft_spheres", "time": {"quick": 260, "thorough": 1500}, "group": "soft",
                      "set": {"SingleIndependentActivePeriodicDirectionEndOfChainEventHandler": {"chain_time": "0.2"},
                              "FixedIntervalSamplingEventHandler": {"sampling_interval": "0.5"},
                              "SingleProcessMediator": {"scheduler": "list_scheduler"}},
                      "obs": {"": "exact:pair"}},
    "lj_two": {"base": "harness:lj_atoms", "time": {"quick": 260, "thorough": 1500}, "group": "lj",
               "set": {"SingleIndependentActivePeriodicDirectionEndOfChainEventHandler": {"chain_time": "0.2"},
                       "FixedIntervalSamplingEventHandler": {"sampling_interval": "0.5"}},
               "obs": {"": "exact:pair"}},
    "hard_disks_two": {"base": "harness:hard_disks", "time": {"quick": 260, "thorough": 1500}, "group": "hard",
                       "set": {"LatticeInputHandler": {"number_of_root_nodes": "2"},
                               "Coulomb": {"number_event_handlers": "1"},
                               "SingleIndependentActivePeriodicDirectionEndOfChainEventHandler": {
                                   "chain_time": "0.2"},
                               "FixedIntervalSamplingEventHandler": {"sampling_interval": "0.5"}},
                       "obs": {"": "exact:pair"}},
}
for _name, _v in VARIANTS.items():
    if _v["group"] == "dipoles":
        _v["obs"] = {"_13": "ref:" + P + "dipoles/ReferenceDataDipoles_13.dat",
                     "_14": "ref:" + P + "dipoles/ReferenceDataDipoles_14.dat"}


def plan(tier, master_seed):
    tasks = []
    index = 0
    for name, variant in VARIANTS.items():
        if not variant["time"][tier]:
            continue
        for run in range(variant.get("runs", RUNS)[tier]):
            tasks.append({"engine": "stat", "variant": name, "run": run, "index": index, "tier": tier,
                          "seed": derive_seed(master_seed, ID + name, run)})
            index += 1
    # cheap runs first would starve the expensive variants at the wall cap: interleave by run number
    tasks.sort(key=lambda t: (t["run"], t["variant"]))
    for i, t in enumerate(tasks):
        t["index"] = i
    return tasks


def scenario_for(task, package_dir=None):
    variant = VARIANTS[task["variant"]]
    scn = {"base": variant["base"], "set": json.loads(json.dumps(variant.get("set", {}))), "seed": task["seed"],
           "end_time": float(variant["time"][task["tier"]]), "max_events": 10 ** 9,
           # point charges without a repulsive core (the hydrogens of the water model) can fall onto an unlike charge
           # of another molecule placed next to them by the random input handler: the event rate diverges and the run
           # would never end; such a run is stopped and left out (the tabulated references do not contain the
           # collapsed state either)
           "storm_guard": [20000, 0.01]}
    if variant.get("roots") and package_dir is not None:
        from .. import gen
        sections = scenario_module.base_sections(package_dir, variant["base"])
        gen.scale_units(sections, package_dir, variant["roots"], scn["set"])
    return scn


def read_samples(out_dir, sections, suffix):
    """Read back what the real output handler wrote (file names are derived from the configured name)."""
    name = None
    for section, options in sections.items():
        if section.endswith("OutputHandler") and "filename" in options and "Dumping" not in section:
            name = os.path.basename(options["filename"])
    stem, ext = name.rsplit(".", 1)
    path = os.path.join(out_dir, stem + suffix + "." + ext)
    if not os.path.exists(path):
        return None
    values = []
    with open(path) as f:
        for line in f:
            if line.startswith("#") or not line.strip():
                continue
            values.append([float(x) for x in line.split()])
    return values


def execute(task, package_dir):
    if task.get("engine") == "stat-replay":
        return execute_replay(task, package_dir)
    variant = VARIANTS[task["variant"]]
    scn = scenario_for(task, package_dir)
    result = runsim.run_scenario(scn, [], package_dir, keep_dir=True)
    out_dir = getattr(result, "out_dir", None)
    summary = {"status": result.status, "events": result.events, "draws": result.draws,
               "final_time": result.final_time, "kinds": dict(result.kinds), "violations": [], "probes": {},
               "error": result.error, "variant": task["variant"], "resolved_task": dict(task)}
    try:
        if result.status == "crash":
            summary["violations"].append(common.crash_violation(ID, result))
            return summary
        if result.status != "ok":
            if (result.notes or {}).get("event_storm_at") is not None:
                summary["probes"] = {"runs_stopped_in_an_event_storm": 1}
            return summary
        sections = scenario_module.resolve(scn, package_dir)
        observables = {}
        for suffix, reference in variant["obs"].items():
            rows = read_samples(out_dir, sections, suffix)
            if rows is None:
                summary["status"] = "harness_error"
                summary["error"] = "output file with suffix %r not found in %s" % (suffix, os.listdir(out_dir))
                return summary
            if reference == "exact:bond":
                values = [math.sqrt(sum(x * x for x in row)) for row in rows]      # |polarization| = bond length
            else:
                values = [row[0] for row in rows]
            per_sample = max(1, len(values) // max(1, result.writes))
            values = values[variant.get("burn_in", BURN_IN) * per_sample:]
            grid = reference_grid(package_dir, reference, scn, sections)
            values.sort()
            n = len(values)
            cdf = [bisect.bisect_right(values, x) / n for x in grid["x"]] if n else None
            observables[suffix] = {"n": n, "cdf": cdf, "min": values[0] if n else None,
                                   "max": values[-1] if n else None}
            core = grid.get("hard_core")
            if core is not None and n and values[0] < core[0] * (1.0 - 1e-9):
                summary["violations"].append({"property": ID, "oracle": "sample_inside_hard_core", "step": 0,
                                              "detail": {"smallest": values[0], "core": core[0]}})
            if core is not None and n and core[1] is not None and values[-1] > core[1] * (1.0 + 1e-9):
                summary["violations"].append({"property": ID, "oracle": "sample_beyond_maximal_bond", "step": 0,
                                              "detail": {"largest": values[-1], "limit": core[1]}})
        summary["observables"] = observables
        summary["probes"] = {"samples_after_burn_in": sum(o["n"] for o in observables.values())}
        summary["nontrivial"] = True
        summary["distinct"] = ["%s/%d" % (task["variant"], task["seed"])]
        summary["sample"] = {"variant": task["variant"], "seed": task["seed"], "events": result.events,
                             "samples": {k: v["n"] for k, v in observables.items()},
                             "cdf_at_levels": {k: v["cdf"] for k, v in observables.items()}}
        return summary
    finally:
        if out_dir:
            shutil.rmtree(out_dir, ignore_errors=True)


# ---------------------------------------------------------------------------------------------------------------------
# references
# ---------------------------------------------------------------------------------------------------------------------

_GRID_CACHE = {}


def load_table(package_dir, relative):
    xs, fs = [], []
    with open(os.path.join(package_dir, "output", relative)) as f:
        for line in f:
            if line.startswith("#") or not line.strip():
                continue
            a, b = line.split()[:2]
            xs.append(float(a))
            fs.append(float(b))
    return xs, fs


def quantiles_from_table(xs, fs):
    grid = []
    for level in LEVELS:
        i = bisect.bisect_left(fs, level)
        i = min(max(i, 1), len(fs) - 1)
        f0, f1 = fs[i - 1], fs[i]
        t = 0.0 if f1 == f0 else (level - f0) / (f1 - f0)
        grid.append(xs[i - 1] + t * (xs[i] - xs[i - 1]))
    return grid


def table_cdf(xs, fs, x):
    i = bisect.bisect_right(xs, x)
    if i <= 0:
        return fs[0]
    if i >= len(xs):
        return fs[-1]
    t = (x - xs[i - 1]) / (xs[i] - xs[i - 1])
    return fs[i - 1] + t * (fs[i] - fs[i - 1])


def pair_energy(sections):
    """Energy function of the harness pair systems from their .ini sections (model definitions)."""
    if "SoftPotential" in sections:
        k, p = float(sections["SoftPotential"]["prefactor"]), float(sections["SoftPotential"]["power"])
        return (lambda r: k / r ** p), None
    if "LennardJonesPotential" in sections and "LjEventHandler" in sections:
        k = float(sections["LennardJonesPotential"]["prefactor"])
        s = float(sections["LennardJonesPotential"]["characteristic_length"])
        return (lambda r: k * ((s / r) ** 12 - (s / r) ** 6)), None
    if "HardSpherePotential" in sections:
        diameter = 2.0 * float(sections["HardSpherePotential"]["radius"])
        return (lambda r: 0.0), diameter
    raise KeyError("no pair energy for this configuration")


def exact_pair_cdf(sections):
    """CDF of |s| for p(s) ~ exp(-beta U(|s|)) over the minimum-image cube/square, by midpoint integration."""
    setting = sections["HypercubicSetting"]
    beta, dim, length = float(setting["beta"]), int(setting["dimension"]), float(setting["system_length"])
    energy, core = pair_energy(sections)
    n = 120 if dim == 3 else 900
    h = length / n
    half = length / 2.0
    nbins = 4000
    rmax = half * math.sqrt(dim)
    hist = [0.0] * (nbins + 1)
    coords = [(-half + (i + 0.5) * h) for i in range(n)]
    sq = [c * c for c in coords]
    if dim == 2:
        for a in sq:
            for b in sq:
                r = math.sqrt(a + b)
                if core is not None and r < core:
                    continue
                hist[int(r / rmax * nbins)] += math.exp(-beta * energy(r))
    else:
        for a in sq:
            for b in sq:
                ab = a + b
                for c in sq:
                    r = math.sqrt(ab + c)
                    if core is not None and r < core:
                        continue
                    hist[int(r / rmax * nbins)] += math.exp(-beta * energy(r))
    total = sum(hist)
    xs, fs = [], []
    acc = 0.0
    for i, w in enumerate(hist):
        acc += w
        xs.append((i + 1) * rmax / nbins)
        fs.append(acc / total)
    return xs, fs, core


def reference_grid(package_dir, reference, scn, sections):
    key = (reference, scn["base"], json.dumps(scn.get("set", {}), sort_keys=True))
    if key in _GRID_CACHE:
        return _GRID_CACHE[key]
    if reference.startswith("ref:"):
        xs, fs = load_table(package_dir, reference[4:])
        grid = {"x": quantiles_from_table(xs, fs), "f": LEVELS}
    elif reference == "exact:bond":
        options = sections["HardDipolePotential"]
        lo, hi = float(options["minimum_separation"]), float(options["maximum_separation"])
        dim = int(sections["HypercubicSetting"]["dimension"])
        xs = [(lo ** dim + level * (hi ** dim - lo ** dim)) ** (1.0 / dim) for level in LEVELS]
        grid = {"x": xs, "f": LEVELS, "hard_core": (lo, hi)}
    elif reference == "exact:pair":
        xs, fs, core = exact_pair_cdf(sections)
        grid = {"x": quantiles_from_table(xs, fs), "f": LEVELS}
        if core is not None:
            grid["hard_core"] = (core, None)
    else:
        raise KeyError(reference)
    _GRID_CACHE[key] = grid
    return grid


# ---------------------------------------------------------------------------------------------------------------------
# analysis over all runs of a batch
# ---------------------------------------------------------------------------------------------------------------------

def aggregate(summaries):
    data = {}
    for s in summaries:
        if s.get("status") != "ok" or "observables" not in s:
            continue
        for suffix, obs in s["observables"].items():
            if obs["cdf"] is None or obs["n"] < 20:
                continue
            data.setdefault((s["variant"], suffix), []).append((obs["cdf"], obs["n"], s["task"]))
    stats = {}
    for key, runs in data.items():
        r = len(runs)
        if r < 8:
            continue
        means, errors = [], []
        for level_index in range(len(LEVELS)):
            column = [run[0][level_index] for run in runs]
            mean = sum(column) / r
            var = sum((c - mean) ** 2 for c in column) / (r - 1)
            means.append(mean)
            errors.append(math.sqrt(var / r))
        stats[key] = {"runs": r, "samples": sum(run[1] for run in runs), "mean": means, "se": errors,
                      "tasks": [run[2] for run in runs]}
    return stats


def analyse(summaries):
    """Called by the driver after all runs: returns (violations, extra coverage)."""
    stats = aggregate(summaries)
    violations = []
    report = {}
    for (variant, suffix), st in stats.items():
        worst = 0.0
        worst_at = None
        for i, level in enumerate(LEVELS):
            z = abs(st["mean"][i] - level) / math.sqrt(st["se"][i] ** 2 + EPS_REF ** 2)
            if z > worst:
                worst, worst_at = z, i
        report["%s%s" % (variant, suffix)] = {"runs": st["runs"], "samples": st["samples"], "max_z": round(worst, 2),
                                              "at_level": LEVELS[worst_at] if worst_at is not None else None,
                                              "typical_se": round(sorted(st["se"])[len(st["se"]) // 2], 5)}
        if VARIANTS[variant].get("cross_only"):
            # the table only supplies the abscissae here
            report["%s%s" % (variant, suffix)]["compared_with"] = "other variants only"
            continue
        if worst > Z_LIMIT:
            violations.append(({"property": ID, "oracle": "distribution_differs_from_reference", "step": 0,
                                "detail": {"variant": variant, "observable": suffix, "z": worst,
                                           "level": LEVELS[worst_at], "mean_cdf": st["mean"][worst_at],
                                           "standard_error": st["se"][worst_at], "runs": st["runs"],
                                           "samples": st["samples"]}},
                               {"engine": "stat-replay", "variants": [variant], "tier": st["tasks"][0]["tier"],
                                "runs": [t["run"] for t in st["tasks"]],
                                "seeds": {variant: [t["seed"] for t in st["tasks"]]}}))
    # variants of one model against each other
    keys = sorted(stats)
    for i, a in enumerate(keys):
        for b in keys[i + 1:]:
            if a[1] != b[1] or VARIANTS[a[0]]["group"] != VARIANTS[b[0]]["group"]:
                continue
            sa, sb = stats[a], stats[b]
            worst, worst_at = 0.0, None
            for k in range(len(LEVELS)):
                z = abs(sa["mean"][k] - sb["mean"][k]) / math.sqrt(sa["se"][k] ** 2 + sb["se"][k] ** 2
                                                                   + (EPS_REF / 2) ** 2)
                if z > worst:
                    worst, worst_at = z, k
            report["%s~%s%s" % (a[0], b[0], a[1])] = {"max_z": round(worst, 2)}
            if worst > Z_LIMIT:
                violations.append(({"property": ID, "oracle": "variants_of_one_model_disagree", "step": 0,
                                    "detail": {"a": a[0], "b": b[0], "observable": a[1], "z": worst,
                                               "level": LEVELS[worst_at], "cdf_a": sa["mean"][worst_at],
                                               "cdf_b": sb["mean"][worst_at]}},
                                   {"engine": "stat-replay", "variants": [a[0], b[0]],
                                    "tier": sa["tasks"][0]["tier"],
                                    "seeds": {a[0]: [t["seed"] for t in sa["tasks"]],
                                              b[0]: [t["seed"] for t in sb["tasks"]]}}))
    return violations, {"per_variant": report, "z_limit": Z_LIMIT, "eps_ref": EPS_REF, "levels": LEVELS}


def execute_replay(task, package_dir):
    """Re-run all runs of the named variants sequentially and repeat the analysis (deterministic)."""
    summaries = []
    for variant in task["variants"]:
        for run, seed in enumerate(task["seeds"][variant]):
            sub = {"engine": "stat", "variant": variant, "run": run, "tier": task["tier"], "seed": seed}
            s = execute(sub, package_dir)
            s["task"] = sub
            summaries.append(s)
    violations, _ = analyse(summaries)
    return {"status": "violation" if violations else "ok", "violations": [v for v, _ in violations], "events": 0,
            "resolved_task": task}


def distinct_nontrivial(summaries):
    stats = aggregate(summaries)
    return sum(1 for st in stats.values() if st["samples"] >= 2000)


def shrink_candidates(task, violation):
    return []
