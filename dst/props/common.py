"""Shared plumbing of the run-level properties (engine runsim)."""
import random
import re

from .. import gen, runsim
from ..driver import derive_seed

REAL_CODE = ("everything under jellyfysh/ in a scratch copy of /repo's working tree: single-process mediator, tag "
             "activator and taggers, cell occupancy and cell systems, both schedulers (C heap), tree state handler, all "
             "event handlers, potentials (two C extensions), liftings, walker, estimators, input/output handlers")
STUBBED = ("nothing in the system under simulation; the PRNG is the seeded facade stream, output files go to a "
           "private scratch directory, stdout is swallowed")


_TIME_ERROR = re.compile(r"The last returned event time ([0-9][0-9.e+-]*) calculated by .*? is greater than the new "
                         r"smallest event time ([0-9][0-9.e+-]*) calculated by")


def crash_signature(text):
    """Exception type and innermost function of a traceback (keeps minimisation on the same crash)."""
    lines = [line for line in text.strip().splitlines() if line.strip()]
    kind = lines[-1].split(":")[0].strip() if lines else "?"
    where = [line.strip() for line in lines if line.strip().startswith("File ")]
    function = where[-1].rsplit(" in ", 1)[-1] if where else "?"
    return "%s in %s" % (kind, function)


def crash_violation(prop, result):
    """The violation record for a run of the system under simulation that raised."""
    text = result.error or ""
    return {"property": prop, "oracle": "crash", "step": result.events,
            "detail": dict(classify_crash(text, result.notes), crash_signature=crash_signature(text),
                           traceback=text[-2500:])}


def classify_crash(text, notes=None):
    """Marks the one crash that is a recorded finding: a candidate event time a rounding error before the current
    time (a potential returned a displacement of about -1e-17), refused by the scheduler.  The shadow scheduler must
    confirm it: both times normalised, the candidate strictly earlier by at most 1e-12."""
    if "_event_time_increasing" not in text:
        return {}
    facts = (notes or {}).get("refused_get")
    if not facts or not facts["normalised"] or not (0.0 < facts["behind_by"] <= 1e-12):
        return {}
    for m in _TIME_ERROR.finditer(text.replace("\n", " ")):
        try:
            last, new = float(m.group(1)), float(m.group(2))
        except ValueError:
            continue        # the source line quoted in the traceback
        if 0.0 <= last - new <= 1e-9 * max(1.0, abs(last)):
            return {"event_time_rounding": True}
    return {}


def plan_runs(prop, tier, master_seed, counts, families=None, events=None, vary=True):
    """counts / events: dict tier -> int."""
    names = families or [name for name, spec in gen.FAMILIES.items() if not spec.get("special")]
    tasks = []
    for index in range(counts[tier]):
        rng = random.Random(derive_seed(master_seed, prop, index))
        family = names[index % len(names)]
        tasks.append({"engine": "runsim", "family": family, "index": index,
                      "rng_seed": derive_seed(master_seed, prop, index), "events": events[tier], "vary": vary})
    return tasks


def materialise(task, package_dir):
    """Tasks carry the generator seed, not the scenario: the scenario is regenerated in the worker (needs the .ini
    files of the scratch copy).  A task may also carry an explicit scenario (replays, minimised cases)."""
    if "scenario" in task:
        return task["scenario"]
    rng = random.Random(task["rng_seed"])
    return gen.generate(rng, task["family"], package_dir, events=task["events"], vary=task.get("vary", True))


def execute_runsim(task, package_dir, monitor_factories, crash_property, nontrivial, sample=None,
                   crash_anchor_files=None, construction_anchor_files=None):
    scn = materialise(task, package_dir)
    result = runsim.run_scenario(scn, monitor_factories, package_dir)
    summary = {
        "status": result.status, "events": result.events, "draws": result.draws, "final_time": result.final_time,
        "digest": result.digest, "kinds": dict(result.kinds), "probes": dict(result.probes),
        "distinct": ["|".join("%s%d" % (k, int(c)) for k, c in gram) for gram in result.grams],
        "violations": [v.as_dict() for v in result.violations],
        "faults": {k[len("fault_"):]: v for k, v in result.probes.items() if k.startswith("fault_")},
        "error": result.error, "notes": result.notes,
        "scenario": scn,
    }
    # make the task self-contained for replay / minimisation
    summary["resolved_task"] = dict(task, scenario=scn)
    if result.status == "crash":
        files = result.crash_files or []
        relevant = True
        if crash_anchor_files is not None:
            relevant = any(any(anchor in f for anchor in crash_anchor_files) for f in files)
        if relevant:
            summary["violations"].append({"property": crash_property, "oracle": "crash", "step": result.events,
                                          "detail": dict(classify_crash(result.error or "", result.notes),
                                                         crash_signature=crash_signature(result.error or ""),
                                                         traceback=(result.error or "")[-2500:])})
    built_files = getattr(result, "construction_crash_files", None)
    if result.status == "invalid" and built_files and construction_anchor_files and any(
            any(anchor in f for anchor in construction_anchor_files) for f in built_files[-2:]):
        summary["status"] = "violation"
        summary["violations"].append({"property": crash_property,
                                      "oracle": "crash_while_building_a_well_formed_configuration", "step": 0,
                                      "detail": {"crash_signature": crash_signature(result.error or ""),
                                                 "traceback": (result.error or "")[-2500:]}})
    if result.status == "invalid" and scn.get("well_formed_factor_file") and construction_anchor_files:
        # the factory turns whatever the tagger's parser raises into a ConfigurationError
        summary["status"] = "violation"
        summary["violations"].append({"property": crash_property,
                                      "oracle": "well_formed_generated_factor_file_cannot_be_built", "step": 0,
                                      "detail": {"factor_file": scn["set"].get("FactorTypeMaps", {}).get("filename"),
                                                 "error": (result.error or "")[-600:]}})
    summary["nontrivial"] = bool(nontrivial(result)) and result.status in ("ok", "capped")
    summary["sample"] = sample(result, scn) if sample else {"scenario": scn, "events": result.events,
                                                          "kinds": dict(result.kinds)}
    return summary
