"""C05 Lifting schemes route probability flow so that every unit's outflow is matched."""
from .runprops import make
from ..monitors.lifting import Lifting

make(globals(), "C05", [Lifting],
     families=["dip_in", "dip_out", "dip_ratio", "dip_motion", "dip_cellb", "dip_cellv", "water_vv", "water_vi",
               "water_pb", "water_pi", "water_one"],
     rule=("the derivative tables real event handlers build during seeded whole runs (three schemes, dipoles and "
           "water, both insertion orders as they occur): (in-run) every table handed to a scheme sums to zero (1e-7 of "
           "sum|q|), the selected unit has a negative derivative and a "
           "fresh instance of the scheme fed the same recorded draws selects the same unit; (choice point) for a "
           "sample of tables every unit with positive derivative is taken as active on a fresh instance and the "
           "forced uniform variate is swept over (0,1) with bisection of every switch, giving the exact selection "
           "measures and the flow balance sum_i q_i m_ik = |q_k|; the same balance once more with the tables a copy of "
           "the real event handler fills when each other unit is the active one of the same configuration (copy "
           "driven through send_event_time / send_out_state with forced draws: the insertion order is the "
           "handler's); non-trivial = >= 10 decisions and >= 1 explored "
           "table"),
     nontrivial=lambda r: r.probes.get("c05_decisions_checked", 0) >= 10 and r.probes.get("c05_tables_explored", 0) >= 1,
     crash_anchor_files=["/lifting/", "event_handler_with_bounding_potential.py",
                         "fixed_separations_event_handler_with_piecewise_constant_bounding_potential.py"],
     assumptions=["table sizes are those of the shipped molecules (3, 4 and 6 entries)",
                  "a uniform draw of exactly 0.0 (probability 2**-53) is not forced: the schemes select a zero-rate "
                  "entry there, which the probability statement does not speak about",
                  "balance tolerance 1e-9 * sum|q| plus the table's own residual |sum q|"])
