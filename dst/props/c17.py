"""C17 Samples and end of run occur at nominal times on a fully time-sliced state."""
from .runprops import make
from ..monitors.sampling import Sampling

make(globals(), "C17", [Sampling],
     rule=("seeded whole runs with varied sampling intervals, chain times and end times; every sample time against "
           "the exact rational k*interval, the state handed to write against the shadow trajectory, the count of "
           "samples against the end time; non-trivial = run reached its end-of-run event with >= 3 samples"),
     nontrivial=lambda r: r.status == "ok" and r.probes.get("c17_samples_checked", 0) >= 3)
