"""C10 Cell-based and file-based factor decompositions cover each partner exactly once."""
import functools
from .runprops import make
from ..monitors.cells import Cells

make(globals(), "C10", [functools.partial(Cells, props=("C10",))],
     families=["atoms_cellb", "atoms_cellv", "dip_cellb", "dip_cellv", "water_vv", "water_vi", "water_pb",
               "hdd_cells", "cuboid_cells", "dense_cells", "dense_cells", "dip_atom_ff", "dip_atom_ff", "dip_atom_ff", "chain_ff", "chain_ff", "dip_atom",
               "dip_in", "dip_motion", "water_pi", "water_one", "hdd", "atoms_power"],
     rule=("seeded whole runs; at every leg the targets of nearby / surplus / far (cell-veto, cell-bounding) events "
           "are compared, as multisets, with the units located by position, and factor-file in-states with an "
           "independent parse of the factor file; non-trivial = >= 50 partition or factor checks"),
     construction_anchor_files=["factor_type_maps.py", "factor_type_map_in_state_tagger.py"],
     nontrivial=lambda r: (r.probes.get("c10_partitions_checked", 0) + r.probes.get("c10_factor_in_state_checks", 0))
     >= 50)
