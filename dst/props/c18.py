"""C18 Cell-veto proposals pick target cells exactly in proportion to their bound rates."""
from .runprops import make
from ..monitors.walker import Walker

make(globals(), "C18", [Walker],
     families=["atoms_cellv", "dip_cellv", "water_vv", "water_vi"],
     counts={"quick": 48, "thorough": 1200},
     events={"quick": 800, "thorough": 3000},
     rule=("the Walker objects real cell-veto handlers build (upper and lower bounds per direction, grids 4-11 cells "
           "per side, atom / dipole / water estimators, about half of the cells with zero rate): (choice point) every "
           "table row is forced in turn through the PRNG seam and the coin threshold of each row is bisected on the "
           "forced uniform variate, giving the exact selection probability of every cell, compared with rate/total "
           "to 1e-12; (choice point) every (active cell, offset) pair of the configured grid (4-11 cells per side, box "
           "lengths 0.8-33): the cell the real cell system reports at the offset is active cell + offset modulo the "
           "grid; (in-run) every cell-veto candidate: target cell = active cell + sampled offset modulo the grid, "
           "candidate time consistent with budget/(total rate x charge factor x speed), and the event is confirmed "
           "exactly when the unit variate of the confirmation draw lies below (true rate per time, as asked of the "
           "potential) / (bound of the sampled offset x charge factor x speed); non-trivial = >= 1 walker explored and >= 50 proposals checked"),
     nontrivial=lambda r: r.probes.get("c18_walkers_explored", 0) >= 1 and r.probes.get("c18_proposals_checked", 0) >= 50,
     crash_anchor_files=["/walker.py", "cell_veto_event_handler.py"],
     assumptions=["the charge factor of the estimator is not observable through a public seam; it is inferred from "
                  "the first proposal of each (handler class, charge) and must then stay constant",
                  "uniform draws of exactly 0.0 are not forced"])
