"""C20 Multi-process mediator commits the same events as the single-process mediator (engine mpsim)."""
import copy
import json
import random

from . import common
from .. import gen, mpsim, runsim, scenario as scenario_module
from ..driver import derive_seed
from ..seams import FACADE, Monitor
from ..crashsim import encode_log

ID = "C20"
LEVEL = "exploration"
BUDGET = {"quick": {"wall": 100, "task_timeout": 400}, "thorough": {"wall": 1500, "task_timeout": 900}}
COUNTS = {"quick": 64, "thorough": 1600}
EVENTS = {"quick": 250, "thorough": 700}
FAMILIES = ["soft", "lj", "hard_spheres", "hard_disks", "hdd_one", "cuboid_cells", "hdd_cells", "cuboid_soft", "hdd"]
RULE = ("configurations whose out-state computation draws no random numbers (soft spheres, Lennard-Jones atoms, hard "
        "spheres/disks on a lattice, the single hard-disk dipole; 2-10 units, 2-8 cores) are run under the real "
        "MultiProcessMediator on a simulated kernel: every Event/Pipe/Semaphore/wait/start/terminate operation is a "
        "scheduling point decided by a seeded scheduler (policies uniform, sticky, starve-one, mediator-first, "
        "workers-reverse), connection.wait returns seeded non-empty subsets, message visibility is delayed; commit "
        "log and write arguments must equal the single-process reference with per-handler PRNG streams; no "
        "deadlock, no worker exception, no process left after post_run, bounded steps. non-trivial = >= 30 commits "
        "compared and >= 300 context switches; distinct = distinct schedule traces (hash of the chosen pids)")
ASSUMPTIONS = ["the simulated kernel models fork (deep copy of the bound event handler, shared kernel objects, copied "
               "PRNG state), pipes (pickled bytes, FIFO per pipe), events, bounded semaphore, connection.wait",
               "loss/duplication/reordering inside one OS pipe and worker crashes are not injected (OS pipes do not "
               "do the former; the property does not promise anything for the latter)"]
REAL_CODE = ("MultiProcessMediator.run, run_in_process, create_or_event (monkey patching of the events), stage machine, "
             "all event handlers, schedulers, activator, state handler; pickling of in-states and out-states")
STUBBED = ("multiprocessing.Process/Pipe/Event/BoundedSemaphore and connection.wait (in-process kernel with baton-"
           "passing threads); OS scheduling (seeded scheduler)")
DISTINCT_MEASURE = "distinct schedule traces (hash over the sequence of chosen process ids)"


class PerHandlerStreams(Monitor):
    """Single-process reference: every event handler draws from its own stream, initialised to the state the PRNG has
    when the worker processes would be forked (end of the mediator's constructor)."""
    name = "per-handler-streams"

    def __init__(self, ctx):
        self.ctx = ctx
        self.base = None
        self.streams = {}
        self.saved = []

    def on_mediator(self, *args):
        self.base = FACADE.stream.getstate()

    def _enter(self, handler, args):
        stream = self.streams.get(handler)
        if stream is None:
            stream = random.Random()
            stream.setstate(self.base)
            self.streams[handler] = stream
        self.saved.append(FACADE.stream)
        FACADE.stream = stream

    def _leave(self, handler, args, result):
        FACADE.stream = self.saved.pop()

    on_send_event_time_begin = _enter
    on_send_out_state_begin = _enter
    on_send_event_time_end = _leave
    on_send_out_state_end = _leave


def plan(tier, master_seed):
    tasks = []
    for index in range(COUNTS[tier]):
        tasks.append({"engine": "mpsim", "family": FAMILIES[index % len(FAMILIES)], "index": index,
                      "rng_seed": derive_seed(master_seed, ID, index), "events": EVENTS[tier]})
    return tasks


def build(task, package_dir):
    if "scenario" in task:
        return task["scenario"], task["mp"]
    rng = random.Random(task["rng_seed"])
    scn = gen.generate(rng, task["family"], package_dir, events=task["events"])
    scn["end_time"] = rng.choice([5.0, 15.0, 40.0])
    mp = {"cores": rng.choice([2, 2, 3, 4, 8]), "policy": rng.choice(mpsim.SimKernel.POLICIES),
          "max_delay": rng.choice([0, 0, 3, 25]), "wait_subsets": rng.random() < 0.7,
          "kernel_seed": rng.getrandbits(32)}
    return scn, mp


def to_multi_process(scn, mp, package_dir):
    sections = scenario_module.resolve(scn, package_dir)
    out = copy.deepcopy(scn)
    out.setdefault("set", {})
    out["set"].setdefault("Run", {})["mediator"] = "multi_process_mediator"
    section = dict(sections["SingleProcessMediator"])
    section["number_cores"] = str(mp["cores"])
    out["set"]["MultiProcessMediator"] = section
    return out


def execute(task, package_dir):
    scn, mp = build(task, package_dir)
    resolved = dict(task, scenario=scn, mp=mp)
    summary = {"status": "ok", "violations": [], "probes": {}, "faults": {}, "distinct": [], "events": 0,
               "resolved_task": resolved}

    def violation(oracle, step, detail):
        summary["violations"].append({"property": ID, "oracle": oracle, "step": step, "detail": detail})
        summary["status"] = "violation"

    reference = runsim.run_scenario(scn, [PerHandlerStreams], package_dir, keep_log=True)
    if reference.status == "invalid":
        summary["status"] = "invalid"
        return summary
    if reference.status not in ("ok", "capped"):
        summary["status"] = "harness_error" if reference.status == "harness_error" else "invalid"
        summary["error"] = reference.error
        return summary
    kernel = mpsim.SimKernel(mp["kernel_seed"], policy=mp["policy"], max_delay=mp["max_delay"],
                             wait_subsets=mp["wait_subsets"], schedule=task.get("schedule"),
                             step_budget=200000 + 4000 * max(reference.events, 1))
    scn_mp = to_multi_process(scn, mp, package_dir)
    box = {}
    with mpsim.Installed(kernel):
        result = runsim.run_scenario(scn_mp, [], package_dir, keep_log=True,
                                     before_run=lambda ctx, mediator: box.setdefault("mediator", mediator))
        leftover = kernel.shutdown()
    summary["events"] = result.events
    summary["draws"] = result.draws
    summary["final_time"] = result.final_time
    summary["kinds"] = dict(result.kinds)
    summary["probes"] = {"context_switches": kernel.switches, "scheduling_points": kernel.step,
                         "simulated_processes": len(kernel.processes),
                         "policy_" + mp["policy"]: 1, "cores_%d" % mp["cores"]: 1}
    summary["probes"].update({k: v for k, v in kernel.stats.items() if isinstance(v, int)})
    summary["faults"] = {"delayed_messages": kernel.stats.get("delayed_messages", 0),
                         "wait_returned_strict_subset": kernel.stats.get("wait_returned_strict_subset", 0),
                         "starved_worker": 1 if mp["policy"] == "starve_one" else 0}
    summary["distinct"] = ["%x" % kernel.trace_hash]
    summary["schedule_length"] = len(kernel.trace)
    if result.status == "aborted":
        exc = result.abort
        if isinstance(exc, mpsim.Deadlock):
            violation("deadlock", result.events, {"processes": exc.description})
        elif isinstance(exc, mpsim.WorkerFailure):
            violation("worker_exception", result.events, {"pid": exc.pid, "traceback": exc.text[-2500:]})
        elif isinstance(exc, mpsim.StepBudgetExceeded):
            violation("no_progress_within_step_budget", result.events, {"steps": kernel.step,
                                                                        "reference_events": reference.events})
    elif result.status == "crash":
        summary["violations"].append(common.crash_violation(ID, result))
        summary["status"] = "violation"
    elif result.status == "harness_error":
        summary["status"] = "harness_error"
        summary["error"] = result.error
        return summary
    elif result.status == "invalid":
        summary["status"] = "invalid"
        summary["error"] = result.error
        return summary
    if not summary["violations"]:
        a, b = encode_log(reference.log), encode_log(result.log)
        n = min(len(a), len(b))
        for i in range(n):
            if a[i] != b[i]:
                violation("commit_differs_from_single_process_reference", i,
                          {"reference": a[i], "multi_process": b[i]})
                break
        else:
            if len(a) != len(b):
                violation("number_of_commits_differs", n, {"reference": len(a), "multi_process": len(b)})
        if not summary["violations"]:
            if reference.write_log != result.write_log:
                violation("samples_differ_from_single_process_reference", n,
                          {"reference": reference.write_log[:3], "multi_process": result.write_log[:3]})
        if not summary["violations"] and leftover and result.status == "ok":
            violation("worker_processes_left_after_post_run", result.events, {"pids": leftover})
    if summary["violations"]:
        # the explicit schedule makes the replay independent of the scheduler's PRNG
        resolved["schedule"] = kernel.trace
    summary["nontrivial"] = (not summary["violations"] and result.events >= 30 and kernel.switches >= 300)
    summary["sample"] = {"scenario": {"base": scn["base"], "seed": scn["seed"], "n_roots": scn.get("n_roots")},
                         "mp": mp, "commits": result.events, "context_switches": kernel.switches,
                         "schedule_prefix": kernel.trace[:40]}
    return summary


def shrink_candidates(task, violation):
    """Delta debugging over the schedule: replace stretches of choices by 'keep running the current process'
    (a pid of -1 is never runnable, so the kernel falls back to the current process)."""
    schedule = task.get("schedule")
    if schedule:
        n = len(schedule)
        for chunks in (2, 4, 8):
            size = max(1, n // chunks)
            for start in range(0, n, size):
                if all(x == -1 for x in schedule[start:start + size]):
                    continue
                t = json.loads(json.dumps(task))
                t["schedule"] = schedule[:start] + [-1] * len(schedule[start:start + size]) + schedule[start + size:]
                yield t
    step = violation.get("step")
    scn = task.get("scenario", {})
    if isinstance(step, int) and scn.get("max_events", 10 ** 9) > step + 3:
        t = json.loads(json.dumps(task))
        t["scenario"]["max_events"] = step + 3
        t.pop("schedule", None)
        yield t
