"""C08 A committed event was computed from the trajectory that is still current."""
from .runprops import make
from ..monitors.stale import Stale

from .. import gen as _gen

make(globals(), "C08", [Stale],
     families=[name for name, spec in _gen.FAMILIES.items() if not spec.get("special")] + ["atoms_power_huge"],
     events={"quick": 1500, "thorough": 4000},
     rule=("seeded whole runs; every unit of the in-state snapshotted at send_event_time is compared with the global "
           "state just before its event is committed; non-trivial = >= 30 interaction or cell-veto events checked "
           "with at least one other commit between request and commit"),
     nontrivial=lambda r: r.probes.get("c08_events_checked", 0) >= 30
     and r.probes.get("c08_commits_between_request_and_commit", 0) > 0)
