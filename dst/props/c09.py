"""C09 Pending candidate events equal what a fresh start from the current state creates."""
import functools
from .runprops import make
from ..monitors.pending import Pending
from ..monitors.cells import Cells

make(globals(), "C09", [Pending, functools.partial(Cells, props=("C10",), report_as="C09")],
     rule=("seeded whole runs; at every leg the multiset of in-state identifiers of the live scheduler entries of "
           "each interaction-type tagger is compared with the tagger's from-scratch output, count-only for timer "
           "taggers; activation is taken from a shadow model of the activate/deactivate lists and the expected "
           "output from the class-level generator, and for cell-based taggers the fresh start is recomputed from "
           "positions (every unit in a nearby cell targeted exactly once, far units exactly once); non-trivial = >= 200 tagger checks"),
     nontrivial=lambda r: r.probes.get("c09_tagger_checks", 0) >= 200)
