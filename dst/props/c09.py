"""C09 Pending candidate events equal what a fresh start from the current state creates."""
from .runprops import make
from ..monitors.pending import Pending

make(globals(), "C09", [Pending],
     rule=("seeded whole runs; at every leg the multiset of in-state identifiers of the live scheduler entries of "
           "each interaction-type tagger is compared with the tagger's from-scratch output, count-only for timer "
           "taggers; non-trivial = >= 200 tagger checks"),
     nontrivial=lambda r: r.probes.get("c09_tagger_checks", 0) >= 200)
