"""C19 A dumped run resumes to exactly the run that was never interrupted (engine crashsim)."""
import os
import random
import shutil

from . import common
from .. import crashsim, gen, runsim, scenario as scenario_module
from ..driver import derive_seed

ID = "C19"
LEVEL = "exploration"
BUDGET = {"quick": {"wall": 100, "task_timeout": 400}, "thorough": {"wall": 1500, "task_timeout": 900}}
COUNTS = {"quick": 40, "thorough": 800}
EVENTS = {"quick": 900, "thorough": 3000}
RESUMES = {"quick": 2, "thorough": 6}
FAMILIES = ["atoms_power", "atoms_cellb", "atoms_cellv", "dip_atom", "dip_in", "dip_out", "dip_ratio", "dip_motion",
            "dip_cellb", "dip_cellv", "water_pi", "water_pb", "water_vv", "water_one", "hdd_one"]
RULE = ("seeded scenarios with a dumping tagger added (interval drawn so that several dumps fall into the run); the "
        "run is executed to its end with every dump copied aside, then the repository's resume.main() is executed in "
        "a fresh interpreter (random PYTHONHASHSEED) on chosen dumps, optionally crashed and resumed again from its "
        "own dump, optionally from a torn copy; commit log and write arguments must equal the reference tail bit for "
        "bit, and the dumping run must equal the same seed without dumping; non-trivial = a resumed tail of >= 20 "
        "events was compared; distinct = distinct (scenario, dump index)")
ASSUMPTIONS = ["the harness's proxies and PRNG facade travel inside the dump (they hold no state of their own)",
               "event times of candidates created before the dump are compared through the time stamps in the "
               "out-state only"]
REAL_CODE = common.REAL_CODE + "; dill pickling; jellyfysh.resume.main() in a fresh interpreter"
STUBBED = ("the OS process crash (the original process is abandoned, a fresh interpreter sees only the scratch "
           "directory); torn dumps are produced by truncating a copy of the dump file")
DISTINCT_MEASURE = "distinct (family, seed, dump index) resumed"


def plan(tier, master_seed):
    tasks = []
    for index in range(COUNTS[tier]):
        tasks.append({"engine": "crashsim", "family": FAMILIES[index % len(FAMILIES)], "index": index,
                      "rng_seed": derive_seed(master_seed, ID, index), "events": EVENTS[tier],
                      "resumes": RESUMES[tier]})
    return tasks


def build_scenario(task, package_dir):
    if "scenario" in task:
        return task["scenario"], task["plan"]
    rng = random.Random(task["rng_seed"])
    scn = gen.generate(rng, task["family"], package_dir, events=task["events"])
    scn["end_time"] = rng.choice([2.0, 5.0, 12.0])
    nodump = dict(scn, set={k: dict(v) for k, v in scn["set"].items()})
    sections = scenario_module.resolve(scn, package_dir)
    interval = scn["end_time"] / rng.choice([2.5, 4.3, 7.7, 13.1])
    crashsim.add_dumping(sections, interval, scn["set"])
    plan_ = {"hashseed": rng.randrange(1, 10000), "pick": rng.random(), "chain": rng.random() < 0.4,
             "chain_stop": rng.randrange(5, 200), "torn": rng.random() < 0.35, "torn_at": rng.random(),
             "nodump": nodump}
    return scn, plan_


def execute(task, package_dir):
    scn, plan_ = build_scenario(task, package_dir)
    resolved = dict(task, scenario=scn, plan=plan_)
    scratch_root = os.path.dirname(package_dir)
    summary = {"status": "ok", "violations": [], "probes": {}, "faults": {}, "distinct": [], "events": 0,
               "resolved_task": resolved}
    probes, faults = summary["probes"], summary["faults"]

    def bump(d, key, n=1):
        d[key] = d.get(key, 0) + n

    saver_box = {}

    def saver_factory(ctx):
        saver_box["saver"] = crashsim.DumpSaver(ctx)
        return saver_box["saver"]

    reference = runsim.run_scenario(scn, [saver_factory], package_dir, keep_log=True, keep_dir=True)
    out_dir = getattr(reference, "out_dir", None)
    try:
        summary["events"] = reference.events
        summary["draws"] = reference.draws
        summary["final_time"] = reference.final_time
        summary["kinds"] = dict(reference.kinds)
        if reference.status in ("invalid", "stopped_by_shortage_error"):
            # (an under-provisioned scenario ends with the activator's own error, in the resumed process as well)
            summary["status"] = "invalid"
            return summary
        if reference.status in ("harness_error",):
            summary["status"] = "harness_error"
            summary["error"] = reference.error
            return summary
        if reference.status == "crash":
            summary["violations"].append(common.crash_violation(ID, reference))
            summary["status"] = "violation"
            return summary
        dumps = saver_box["saver"].dumps
        bump(probes, "dumps_written", len(dumps))
        # (a) the dumping run commits, dumping events removed, exactly the events of the same seed without dumping
        plain = runsim.run_scenario(plan_["nodump"], [], package_dir, keep_log=True)
        ref_without = [e for e in reference.log if e[1] != "FixedIntervalDumpingEventHandler"]
        n = min(len(ref_without), len(plain.log))
        for i in range(n):
            a, b = ref_without[i], plain.log[i]
            if a[1:] != b[1:]:
                # two different events with exactly the same candidate time: which one the heap returns depends on the
                # other entries it holds (recorded finding C19-tie); anything else is a plain violation
                tie = a[2] is not None and a[2] == b[2] and a[1] != b[1]
                summary["violations"].append({"property": ID, "oracle": "dumping_changes_the_run", "step": i,
                                              "detail": {"with_dumping": crashsim.encode_log([a])[0],
                                                         "without": crashsim.encode_log([b])[0],
                                                         "exact_tie": bool(tie)}})
                tie_only = bool(tie)
                break
        else:
            if reference.status == "ok" and plain.status == "ok" and len(ref_without) != len(plain.log):
                summary["violations"].append({"property": ID, "oracle": "dumping_changes_the_run", "step": n,
                                              "detail": {"lengths": [len(ref_without), len(plain.log)]}})
        bump(probes, "dump_vs_nodump_events_compared", n)
        if not dumps or (summary["violations"] and not locals().get("tie_only")):
            summary["nontrivial"] = False
            return summary
        tie_violations = list(summary["violations"])
        summary["violations"] = []
        # (b) resume chosen dumps in a fresh interpreter
        order = list(range(len(dumps)))
        rng = random.Random(task.get("rng_seed", 0) ^ 0x5EED)
        rng.shuffle(order)
        chosen = sorted(order[:task.get("resumes", 2)])
        if "only_dump" in task:
            chosen = [task["only_dump"]] if task["only_dump"] < len(dumps) else []
        compared = 0
        for which in chosen:
            step, path = dumps[which]
            start = step - 1
            remaining = len(reference.log) - start - 1
            stop_after = remaining if reference.status != "ok" else None
            resumed = crashsim.resume_in_fresh_interpreter(scratch_root, path, out_dir, plan_["hashseed"] + which,
                                                           stop_after=stop_after, tag="d%d" % which)
            bump(faults, "crash_and_restart_in_fresh_interpreter")
            if resumed["status"] in ("failed", "no_result"):
                summary["violations"].append({"property": ID, "oracle": "resume_failed", "step": start,
                                              "detail": {"dump_index": which, "error": resumed.get("error")}})
                break
            diff = crashsim.compare_tail(reference.log, reference.write_log, start, resumed)
            if diff is not None:
                summary["violations"].append({"property": ID, "oracle": "resumed_run_diverges", "step": start,
                                              "detail": dict(diff, dump_index=which, events_in_tail=remaining,
                                                             hashseed=plan_["hashseed"] + which)})
                break
            compared += len(resumed["log"])
            summary["distinct"].append("%s/%d/%d" % (task.get("family"), scn["seed"], which))
            bump(probes, "resumed_tail_events_compared", len(resumed["log"]))
            # (c) chain of restarts: crash the resumed process, resume again from its own last dump
            if plan_["chain"] and which == chosen[0]:
                crashed = crashsim.resume_in_fresh_interpreter(scratch_root, path, out_dir, plan_["hashseed"] + 77,
                                                               stop_after=min(plan_["chain_stop"], max(remaining, 1)),
                                                               tag="c%d" % which)
                bump(faults, "crash_of_resumed_process")
                if crashed["status"] in ("failed", "no_result"):
                    summary["violations"].append({"property": ID, "oracle": "resume_failed", "step": start,
                                                  "detail": {"dump_index": which, "chain": True,
                                                             "error": crashed.get("error")}})
                    break
                if crashed["dumps"]:
                    local_step, redump = crashed["dumps"][-1]
                    start2 = start + local_step
                    remaining2 = len(reference.log) - start2 - 1
                    again = crashsim.resume_in_fresh_interpreter(
                        scratch_root, redump, out_dir, plan_["hashseed"] + 78,
                        stop_after=remaining2 if reference.status != "ok" else None, tag="cc%d" % which)
                    bump(faults, "second_restart_from_dump_of_resumed_process")
                    if again["status"] in ("failed", "no_result"):
                        summary["violations"].append({"property": ID, "oracle": "resume_failed", "step": start2,
                                                      "detail": {"chain": True, "error": again.get("error")}})
                        break
                    diff = crashsim.compare_tail(reference.log, reference.write_log, start2, again)
                    if diff is not None:
                        summary["violations"].append({"property": ID, "oracle": "resumed_run_diverges",
                                                      "step": start2, "detail": dict(diff, chain=True)})
                        break
                    bump(probes, "chained_restart_tail_events_compared", len(again["log"]))
        # (d) torn dump: a truncated copy either fails to load or resumes to the reference
        if plan_["torn"] and dumps and not summary["violations"]:
            step, path = dumps[0]
            size = os.path.getsize(path)
            cut = max(1, min(size - 1, int(size * plan_["torn_at"])))
            torn = path + ".torn"
            with open(path, "rb") as f:
                data = f.read(cut)
            with open(torn, "wb") as f:
                f.write(data)
            start = step - 1
            remaining = len(reference.log) - start - 1
            resumed = crashsim.resume_in_fresh_interpreter(scratch_root, torn, out_dir, plan_["hashseed"] + 5,
                                                           stop_after=remaining, tag="torn")
            bump(faults, "torn_dump_write")
            if resumed["status"] in ("failed", "no_result"):
                bump(probes, "torn_dump_rejected_at_load")
            else:
                diff = crashsim.compare_tail(reference.log, reference.write_log, start, resumed)
                if diff is not None:
                    summary["violations"].append({"property": ID, "oracle": "torn_dump_loaded_and_diverged",
                                                  "step": start, "detail": dict(diff, cut=cut, size=size)})
                bump(probes, "torn_dump_loaded")
        summary["nontrivial"] = compared >= 20 and not summary["violations"]
        summary["violations"] = tie_violations + summary["violations"]
        summary["sample"] = {"scenario": {"base": scn["base"], "seed": scn["seed"], "n_roots": scn.get("n_roots"),
                                          "end_time": scn["end_time"]},
                             "dumps": [s for s, _ in dumps], "resumed_dump_indices": chosen,
                             "tail_events_compared": compared}
        if summary["violations"]:
            summary["status"] = "violation"
        return summary
    finally:
        if out_dir:
            shutil.rmtree(out_dir, ignore_errors=True)


def shrink_candidates(task, violation):
    """Resume only the failing dump; then cut the run short after the divergence."""
    import json
    detail = violation.get("detail", {})
    if "dump_index" in detail and task.get("only_dump") != detail["dump_index"]:
        t = json.loads(json.dumps(task))
        t["only_dump"] = detail["dump_index"]
        t["plan"]["chain"] = False
        t["plan"]["torn"] = False
        yield t
    at = detail.get("at_event_after_dump")
    if isinstance(at, int) and isinstance(violation.get("step"), int):
        cap = violation["step"] + at + 3
        if task["scenario"].get("max_events", 10 ** 9) > cap:
            t = json.loads(json.dumps(task))
            t["scenario"]["max_events"] = cap
            t["plan"]["nodump"]["max_events"] = cap
            yield t
