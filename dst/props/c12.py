"""C12 Composite objects stay consistent with their point masses."""
from .runprops import make
from ..monitors.composite import Composite

make(globals(), "C12", [Composite],
     families=["dip_atom", "dip_in", "dip_out", "dip_ratio", "dip_motion", "dip_cellb", "dip_cellv", "water_vv",
               "water_vi", "water_pb", "water_pi", "water_one", "hdd_one", "water_motion", "water_motion", "hdd", "dip_motion_ff", "dip_motion_ff", "dip_atom_ff"],
     rule=("seeded whole runs of configurations with composite objects (dipoles with three liftings and mode "
           "switching, water, hard-disk dipole; 1-5 molecules); after every commit and on the initial state root "
           "velocity = weighted member velocities and root position = weighted barycentre at the event time; "
           "non-trivial = at least 50 events and an active-unit change"),
     nontrivial=lambda r: r.events >= 50 and r.probes.get("c12_objects_checked", 0) > 50,
     assumptions=["positions 1e-9*L, velocities 1e-9 relative; drift is linear in events, runs are capped"])
