"""C14 Time stamps keep full resolution and order however long the run is (clock-jump fault + shadow clock)."""
import os
import random
import shutil

from . import common
from .. import crashsim, gen, runsim, scenario as scenario_module, seams, timesim
from ..driver import derive_seed
from ..monitors.clock import ShadowClock

ID = "C14"
LEVEL = "exploration"
BUDGET = {"quick": {"wall": 100, "task_timeout": 400}, "thorough": {"wall": 1500, "task_timeout": 900}}
RUNS = {"quick": 48, "thorough": 800}
JUMPS = {"quick": 32, "thorough": 640}
TIME_BATCHES = {"quick": 16, "thorough": 320}
TIME_HISTORIES = {"quick": 150, "thorough": 400}
EVENTS = {"quick": 1200, "thorough": 3000}
JUMP_FAMILIES = ["atoms_power", "atoms_cellb", "dip_atom", "dip_in", "dip_motion", "dip_ratio", "water_pi",
                 "water_one", "hdd_one", "soft", "lj", "hard_disks", "atoms_cellv", "dip_out"]
RULE = ("(0) timesim: seeded operation histories on a pool of Time objects (construct, from_float, add, update in "
        "place, subtract, all six comparisons; quotients up to 2**52, remainders 0 .. nextafter(1,0), displacements "
        "from denormals to 1e12 and +inf) against exact rationals; (1) shadow clock: during seeded whole runs every k-th Time addition, subtraction, comparison and "
        "from_float executed by the system is re-evaluated in exact rational arithmetic (normalisation, error of "
        "one rounding, monotonicity, never below the left operand, exact order, exact conversion, absorbing "
        "infinity); (2) clock-jump fault: at a dump every pickled Time and the quotient column of the pickled heap is "
        "shifted by Q in {2**10 .. 2**52}; the continuation resumed in a fresh interpreter must commit exactly the "
        "events of the unjumped continuation - same handlers, positions, velocities and remainders bit for bit, "
        "quotients larger by Q - while the shadow clock watches the operations at the large quotients; a dump the "
        "jumped system writes itself is resumed once more and must continue bit for bit like the jumped run "
        "(nothing a dump stores loses resolution at large times); non-trivial "
        "= run with >= 200 checked operations, or jump with >= 20 compared events")
ASSUMPTIONS = ["operands are those the system produces (displacements 1e-16 .. 1e3 and +inf); negative displacements "
               "(rounding of tiny event distances) are skipped and counted",
               "the reducers that shift the clock are installed only for the duration of the harness's own dump"]
REAL_CODE = common.REAL_CODE + "; base.time.Time arithmetic at quotients up to 2**52; heap.c comparisons"
STUBBED = "the clock jump itself (a scoped pickling reducer) and the OS process crash"
DISTINCT_MEASURE = "distinct (family, seed, Q) for jumps; 4-grams of event kinds for runs"


def plan(tier, master_seed):
    tasks = common.plan_runs(ID, tier, master_seed, RUNS, events=EVENTS)
    for index in range(JUMPS[tier]):
        tasks.append({"engine": "clockjump", "index": 10 ** 6 + index,
                      "family": JUMP_FAMILIES[index % len(JUMP_FAMILIES)],
                      "rng_seed": derive_seed(master_seed, ID + "jump", index), "events": EVENTS[tier] // 2})
    for index in range(TIME_BATCHES[tier]):
        tasks.append({"engine": "timesim", "index": 2 * 10 ** 6 + index,
                      "rng_seed": derive_seed(master_seed, ID + "time", index), "histories": TIME_HISTORIES[tier]})
    return tasks


def timesim_cases(task):
    rng = random.Random(task["rng_seed"])
    cases = [timesim.generate(random.Random(rng.getrandbits(48)), rng.randint(20, 200))
             for _ in range(task["histories"])]
    return cases[:task["stop_at"] + 1] if "stop_at" in task else cases


def execute_timesim_isolated(task):
    """A batch of histories runs in a process forked for it alone (Time objects may be shared module-level state of
    the system: what one batch did to them must not decide another batch)."""
    import concurrent.futures
    import multiprocessing
    with concurrent.futures.ProcessPoolExecutor(max_workers=1, mp_context=multiprocessing.get_context("fork")) as pool:
        return pool.submit(execute_timesim, task).result()


def execute_timesim(task):
    summary = {"status": "ok", "violations": [], "probes": {}, "faults": {}, "distinct": [], "events": 0}
    stats = {}
    if "history" in task:
        cases = [(task["history"]["pool"], task["history"]["ops"])]
    else:
        cases = timesim_cases(task)
    nontrivial = 0
    for number, (pool, ops) in enumerate(cases):
        before = stats.get("compare", 0)
        try:
            timesim.run_history(pool, ops, stats)
        except timesim.Failure as failure:
            summary["violations"].append({"property": ID, "oracle": failure.oracle, "step": failure.index,
                                          "detail": dict(failure.detail, engine="timesim")})
            summary["status"] = "violation"
            if "history" in task:
                summary["resolved_task"] = dict(task, history={"pool": pool, "ops": ops[:failure.index + 1]})
            else:
                # the whole batch up to the failing history: earlier histories may have changed process-wide state
                summary["resolved_task"] = dict(task, stop_at=number)
                summary["failing_history"] = {"pool": pool, "ops": ops[:failure.index + 1]}
            break
        if stats.get("compare", 0) - before >= 5:
            nontrivial += 1
    summary["probes"] = {"timesim_" + k: v for k, v in stats.items()}
    summary["nontrivial"] = nontrivial >= 1
    summary["nontrivial_count"] = nontrivial
    summary["distinct"] = ["t%d/%d" % (task.get("rng_seed", 0), i) for i in range(len(cases))]
    summary["sample"] = {"pool": cases[0][0], "history_prefix": cases[0][1][:8]} if cases else None
    return summary


def shifted(entry, q):
    """Reference log entry with every time quotient increased by q (floats, exact for q up to 2**52)."""
    index, name, time, records = entry
    time = (time[0] + q, time[1]) if time is not None else None
    records = tuple((r[0], r[1], r[2], (r[3][0] + q, r[3][1]) if r[3] is not None else None) for r in records)
    return (index, name, time, records)


def execute(task, package_dir):
    if task.get("engine") == "timesim":
        return execute_timesim_isolated(task)
    seams.install_time_seam()
    if task.get("engine") == "runsim":
        out = common.execute_runsim(task, package_dir, [ShadowClock], ID,
                                    lambda r: sum(v for k, v in r.probes.items()
                                                  if k.startswith("c14_") and k.endswith("_checked")) >= 200)
        out["nontrivial_count"] = 1 if out.get("nontrivial") else 0
        return out
    summary = {"status": "ok", "violations": [], "probes": {}, "faults": {}, "distinct": [], "events": 0}
    if "scenario" in task:
        scn, plan_ = task["scenario"], task["plan"]
    else:
        rng = random.Random(task["rng_seed"])
        scn = gen.generate(rng, task["family"], package_dir, events=task["events"])
        scn["end_time"] = rng.choice([2.0, 5.0, 12.0])
        sections = scenario_module.resolve(scn, package_dir)
        crashsim.add_dumping(sections, scn["end_time"] / rng.choice([2.5, 4.3, 7.7]), scn["set"])
        plan_ = {"q": float(2 ** rng.choice([10, 20, 31, 32, 40, 51, 52])), "hashseed": rng.randrange(1, 10000),
                 "which": rng.random()}
    summary["resolved_task"] = dict(task, scenario=scn, plan=plan_)
    scratch_root = os.path.dirname(package_dir)
    box = {}

    def saver_factory(ctx):
        box["saver"] = crashsim.DumpSaver(ctx)
        box["saver"].jump = plan_["q"]
        return box["saver"]

    reference = runsim.run_scenario(scn, [saver_factory], package_dir, keep_log=True, keep_dir=True)
    out_dir = getattr(reference, "out_dir", None)
    try:
        summary["events"] = reference.events
        summary["kinds"] = dict(reference.kinds)
        summary["final_time"] = reference.final_time
        if reference.status == "stopped_by_shortage_error":
            summary["status"] = "invalid"
            return summary
        if reference.status in ("invalid", "harness_error"):
            summary["status"] = reference.status
            summary["error"] = reference.error
            return summary
        if reference.status == "crash":
            summary["violations"].append(common.crash_violation(ID, reference))
            summary["status"] = "violation"
            return summary
        jumped = box["saver"].jumped
        if not jumped:
            summary["nontrivial"] = False
            return summary
        which = min(len(jumped) - 1, int(plan_["which"] * len(jumped)))
        step, path = jumped[which]
        start = step - 1
        remaining = len(reference.log) - start - 1
        resumed = crashsim.resume_in_fresh_interpreter(scratch_root, path, out_dir, plan_["hashseed"],
                                                       stop_after=remaining if reference.status != "ok" else None,
                                                       tag="jump", shadow_clock=True)
        summary["faults"] = {"clock_jump_2^%d" % int(round(__import__("math").log2(plan_["q"]))): 1}
        if resumed["status"] in ("failed", "no_result"):
            summary["violations"].append({"property": ID, "oracle": "resume_after_clock_jump_failed", "step": start,
                                          "detail": {"q": plan_["q"], "error": resumed.get("error")}})
            summary["status"] = "violation"
            return summary
        q = plan_["q"]
        moved = [shifted(entry, q) for entry in reference.log]
        diff = crashsim.compare_tail(moved, reference.write_log, start, resumed, compare_writes=False)
        if diff is not None:
            summary["violations"].append({"property": ID, "oracle": "continuation_after_clock_jump_differs",
                                          "step": start, "detail": dict(diff, q=q)})
            summary["status"] = "violation"
            return summary
        for problem in resumed.get("clock_problems", []):
            summary["violations"].append({"property": ID, "oracle": problem["oracle"], "step": start,
                                          "detail": dict(problem["detail"], after_jump_by=q)})
            summary["status"] = "violation"
            break
        stats = resumed.get("clock_stats", {})
        summary["probes"] = {"c14_jump_tail_events_compared": len(resumed["log"]),
                             "c14_operations_checked_after_jump": stats.get("checked", 0)}
        # second generation: a dump the system wrote itself while living at the large clock is resumed in yet another
        # fresh interpreter; nothing the dump stores may have lost resolution there
        later = [(s2, p2) for s2, p2 in resumed.get("dumps", []) if len(resumed["log"]) - s2 >= 5]
        if later:
            step2, path2 = later[int(plan_["which"] * len(later)) % len(later)]
            tail = len(resumed["log"]) - step2
            second = crashsim.resume_in_fresh_interpreter(
                scratch_root, path2, out_dir, plan_["hashseed"] + 1,
                stop_after=tail if resumed["status"] == "stopped" else None, tag="jump2")
            if second["status"] in ("failed", "no_result"):
                summary["violations"].append({"property": ID, "oracle": "resume_of_a_dump_written_after_the_jump_failed",
                                              "step": start, "detail": {"q": q, "error": second.get("error")}})
                summary["status"] = "violation"
                return summary
            diff = crashsim.compare_tail(resumed["log"], [], step2 - 1, second, compare_writes=False)
            if diff is not None:
                summary["violations"].append({"property": ID, "oracle": "dump_written_after_the_jump_resumes_differently",
                                              "step": start, "detail": dict(diff, q=q, events_after_jump=step2)})
                summary["status"] = "violation"
                return summary
            summary["probes"]["c14_second_generation_events_compared"] = len(second["log"])
            summary["faults"]["dump_and_resume_at_the_large_clock"] = 1
        summary["notes"] = {"c14_largest_quotient_seen": stats.get("largest_quotient", 0.0)}
        summary["distinct"] = ["%s/%d/%g" % (task.get("family"), scn["seed"], q)]
        summary["nontrivial"] = len(resumed["log"]) >= 20
        summary["nontrivial_count"] = 1 if summary["nontrivial"] else 0
        summary["sample"] = {"scenario": {"base": scn["base"], "seed": scn["seed"]}, "q": q,
                             "events_after_jump_compared": len(resumed["log"]),
                             "time_operations_checked_after_jump": stats.get("checked", 0)}
        return summary
    finally:
        if out_dir:
            shutil.rmtree(out_dir, ignore_errors=True)


def shrink_candidates(task, violation):
    import json
    history = task.get("history")
    if not history and task.get("engine") == "timesim" and "stop_at" in task:
        # first try the failing history alone (it replays only if no earlier history of the batch prepared the ground)
        pool, ops = timesim_cases(task)[-1]
        alone = {k: v for k, v in task.items() if k != "stop_at"}
        alone["history"] = {"pool": pool, "ops": ops}
        yield alone
        # then fewer leading histories
        return
    if not history:
        from ..driver import default_shrink_candidates
        for t in default_shrink_candidates(task, violation):
            yield t
        return
    ops = history["ops"]
    n = len(ops)
    for chunks in (2, 4, 8, 16):
        size = max(1, n // chunks)
        for start in range(0, n - 1, size):
            t = json.loads(json.dumps(task))
            t["history"]["ops"] = ops[:start] + ops[start + size:]
            if len(t["history"]["ops"]) < n:
                yield t


def distinct_nontrivial(summaries):
    return sum(s.get("nontrivial_count", 0) for s in summaries)
