#!/bin/bash
# usage: tools/quick_all.sh [tier] -- runs every claimed check of MANIFEST.json at VERIF_SEED (default 0) and prints one line per check
tier="${1:-quick}"
cd /verif
for p in $(python3 -c "import json; print(' '.join(c['property_id'] for c in json.load(open('MANIFEST.json'))['checks']))" 2>/dev/null || echo C01 C02 C03 C04 C05 C06 C07 C08 C09 C10 C11 C12 C13 C14 C17 C18 C19 C20); do
  out="$(./check "$p" --tier "$tier" 2>&1)"; code=$?
  echo "$p exit=$code $(echo "$out" | grep -c '^VIOLATION') violations; $(echo "$out" | tail -1 | cut -c1-230)"
  echo "$out" | grep '^violation:' | head -3 | cut -c1-600
done
