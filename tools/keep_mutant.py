#!/usr/bin/env python3
"""usage: tools/keep_mutant.py <src dir> <seeded id> <property> '<needs>' '<caught by / result>' [origin]
Stores a confirmed seeded change under /verif/seeded/<id>/ (patch.diff, demo.py, README.md of its author, meta.json)."""
import json, os, shutil, sys
src, ident, prop, needs, result = sys.argv[1:6]
origin = sys.argv[6] if len(sys.argv) > 6 else "independent sub-agent given only the property text and its own worktree"
dst = os.path.join("/verif/seeded", ident)
os.makedirs(dst, exist_ok=True)
for name in os.listdir(src):
    if name.endswith((".diff", ".py", ".md", ".ini", ".txt")):
        shutil.copy(os.path.join(src, name), os.path.join(dst, name))
meta = {
    "id": ident, "breaks_property": prop, "needs_to_manifest": needs, "origin": origin,
    "confirmed": {
        "how": "tools/confirm_mutant.sh in a scratch worktree of /repo (removed afterwards): demo.py on the unmodified "
               "tree, demo.py with patch.diff applied, full existing test suite with patch.diff applied",
        "demo_without_patch": "exit 0", "demo_with_patch": "exit non-zero (violation message)",
        "test_suite_with_patch": "728 passed, 3 skipped"},
    "checks": {"how": "tools/mutant.sh patch.diff <tier> <checks> (patch applied to a scratch copy via VERIF_REPO, "
                      "never to /repo); first violation replayed with ./check <ID> --replay",
               "result": result},
}
json.dump(meta, open(os.path.join(dst, "meta.json"), "w"), indent=1)
print("kept", dst)
