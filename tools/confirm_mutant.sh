#!/bin/bash
# usage: tools/confirm_mutant.sh <dir with patch.diff demo.py README.md> <name> <PROP...>
# Confirms a seeded change in a scratch worktree of /repo (demo passes without, fails with the patch; the existing test
# suite passes with the patch), then runs the given checks against it.  Nothing is ever applied to /repo.
set -u
src="$(realpath "$1")"; name="$2"; shift 2
wt="/tmp/wt-confirm-$name"
git -C /repo worktree remove --force "$wt" >/dev/null 2>&1
git -C /repo worktree add --detach "$wt" HEAD >/dev/null 2>&1 || { echo "worktree failed"; exit 3; }
trap 'git -C /repo worktree remove --force "$wt" >/dev/null 2>&1' EXIT
build() { ( cd "$wt" && for s in jellyfysh/scheduler/heap_scheduler/heap_build.py jellyfysh/potential/merged_image_coulomb_potential/merged_image_coulomb_potential_build.py jellyfysh/potential/inverse_power_coulomb_bounding_potential/inverse_power_coulomb_bounding_potential_build.py; do /venv/bin/python $s >/dev/null 2>&1 || echo "BUILD FAILED $s"; done ); }
mkdir -p "$wt/mutants/x"; cp "$src"/demo.py "$wt/mutants/x/"; cp "$src"/*.py "$wt/mutants/x/" 2>/dev/null
build
( cd "$wt" && timeout 600 /venv/bin/python mutants/x/demo.py >/tmp/confirm-$name.clean 2>&1 ); clean=$?
( cd "$wt" && git apply "$src/patch.diff" ) || { echo "patch does not apply"; exit 3; }
build
( cd "$wt" && timeout 600 /venv/bin/python mutants/x/demo.py >/tmp/confirm-$name.patched 2>&1 ); patched=$?
tests="$( cd "$wt" && timeout 1800 /venv/bin/python -m pytest -q -p no:cacheprovider -n 8 2>&1 | tail -1 )"
echo "confirm $name: demo clean exit=$clean, demo patched exit=$patched, tests with patch: $tests"
echo "  patched demo says: $(tail -2 /tmp/confirm-$name.patched | tr '\n' ' ' | cut -c1-300)"
if [ "$#" -gt 0 ]; then /verif/tools/mutant.sh "$src/patch.diff" "${TIER:-quick}" "$@"; fi
