#!/usr/bin/env python3
"""Prints the table of seeded changes (DESIGN.md section 11.5) from seeded/*/meta.json."""
import glob, json, os
rows = []
for path in sorted(glob.glob("/verif/seeded/*/meta.json")):
    m = json.load(open(path))
    rows.append((m["id"], m["breaks_property"], m["needs_to_manifest"], m["checks"]["result"]))
print("| id | property | the change and what it needs | outcome |")
print("|---|---|---|---|")
for r in rows:
    print("| %s | %s | %s | %s |" % tuple(x.replace("|", "/").replace("\n", " ") for x in r))
