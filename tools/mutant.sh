#!/bin/bash
# usage: tools/mutant.sh <patch.diff> <tier> <PROP> [PROP...]
# Applies a patch to a scratch copy of /repo/jellyfysh (never to /repo) and runs the given checks against it.
set -u
patch="$(realpath "$1")"; tier="$2"; shift 2
work="$(mktemp -d /tmp/jfmut-XXXXXX)"
trap 'rm -rf "$work"' EXIT
mkdir -p "$work/repo" "$work/ev" "$work/rp"
rsync -a --exclude '*.so' --exclude __pycache__ /repo/jellyfysh "$work/repo/"
( cd "$work/repo" && patch -p1 -s < "$patch" ) || { echo "patch failed"; exit 3; }
for p in "$@"; do
  VERIF_REPO="$work/repo" VERIF_EVIDENCE_DIR="$work/ev" VERIF_REPLAY_DIR="$work/rp" \
    timeout 3000 /verif/check "$p" --tier "$tier" > "$work/out.$p" 2>&1
  code=$?
  echo "== $p exit=$code $(grep -c '^VIOLATION' "$work/out.$p") violation lines; $(grep -m1 '^violation:' "$work/out.$p" | cut -c1-400)"
  tail -1 "$work/out.$p" | cut -c1-300
done
