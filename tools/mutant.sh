#!/bin/bash
# usage: tools/mutant.sh <patch.diff> <tier> <PROP> [PROP...]
# Applies a patch to a scratch copy of /repo/jellyfysh (never to /repo), runs the given checks against it and replays
# the first reported violation of each in a fresh process.
set -u
patch="$(realpath "$1")"; tier="$2"; shift 2
work="$(mktemp -d /tmp/jfmut-XXXXXX)"
trap 'rm -rf "$work"' EXIT
mkdir -p "$work/repo" "$work/ev" "$work/rp"
rsync -a --exclude '*.so' --exclude __pycache__ /repo/jellyfysh "$work/repo/"
( cd "$work/repo" && patch -p1 -s < "$patch" ) || { echo "patch failed"; exit 3; }
for p in "$@"; do
  VERIF_REPO="$work/repo" VERIF_EVIDENCE_DIR="$work/ev" VERIF_REPLAY_DIR="$work/rp" \
    timeout 3000 /verif/check "$p" --tier "$tier" > "$work/out.$p" 2>&1
  code=$?
  echo "== $p exit=$code $(grep -c '^VIOLATION' "$work/out.$p") violation lines; $(grep -m1 '^violation:' "$work/out.$p" | cut -c1-400)"
  tail -1 "$work/out.$p" | cut -c1-300
  rp="$(grep -m1 '^VIOLATION' "$work/out.$p" | sed 's/.*replay=//')"
  if [ -n "$rp" ] && [ "${NO_REPLAY:-0}" != 1 ]; then
    VERIF_REPO="$work/repo" timeout 1200 /verif/check "$p" --replay "$rp" 2>&1 | grep -m1 "REPRODUCED\|NOT REPRODUCED" | cut -c1-160
    python3 -c "import json,sys; r=json.load(open('$rp')); print('   replay: minimised=%s reexecutions=%s' % (r['minimised'], r['minimisation_reexecutions']))"
  fi
done
